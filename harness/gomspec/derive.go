package gomspec

import (
	"fmt"
	"os"
	"sort"
	"strconv"
	"strings"
	"testing"
	"time"

	"pgregory.net/rapid"

	"verifharness/kit"
	"verifharness/scratch"
)

// ---- grammar of derivable types ------------------------------------------------------------

type caps struct{ eq, ord, hash, monoid, clone, show bool }

func (c caps) has(class string) bool {
	switch class {
	case "Eq":
		return c.eq
	case "Ord":
		return c.ord
	case "Hashable":
		return c.hash
	case "Monoid":
		return c.monoid
	case "Clone":
		return c.clone
	case "Show":
		return c.show
	}
	return false
}

func (c caps) and(o caps) caps {
	return caps{c.eq && o.eq, c.ord && o.ord, c.hash && o.hash, c.monoid && o.monoid, c.clone && o.clone, c.show && o.show}
}

type dty struct {
	expr    string
	kind    string
	caps    caps
	lit     func(t *rapid.T) string
	imports []string
	nested  string // name of a nested derived struct, if any
	param   string
}

var all = caps{true, true, true, true, true, true}

func dBasic(monoidInt bool) []dty {
	return []dty{
		{expr: "int", kind: "int", caps: caps{true, true, true, monoidInt, true, true}, lit: func(t *rapid.T) string {
			return strconv.Itoa(rapid.SampledFrom([]int{0, 1, 2, 3, 11, 12, 21, -1}).Draw(t, "int"))
		}},
		{expr: "int64", kind: "int64", caps: caps{true, true, true, false, true, true}, lit: func(t *rapid.T) string {
			return rapid.SampledFrom([]string{"0", "5", "-9223372036854775808", "9223372036854775807"}).Draw(t, "i64")
		}},
		{expr: "uint8", kind: "uint8", caps: caps{true, true, true, false, true, true}, lit: func(t *rapid.T) string {
			return strconv.Itoa(rapid.SampledFrom([]int{0, 1, 255}).Draw(t, "u8"))
		}},
		{expr: "float64", kind: "float64", caps: caps{true, true, true, false, true, true}, lit: func(t *rapid.T) string {
			// negZero (declared in the emitted test file) is -0.0: equal to 0 under ==, a different bit pattern
			return rapid.SampledFrom([]string{"0", "negZero", "1.5", "-2.25", "3", "0.25", "0.75"}).Draw(t, "f64")
		}},
		{expr: "string", kind: "string", caps: all, lit: func(t *rapid.T) string {
			return strconv.Quote(rapid.SampledFrom([]string{"", "mka", "mkb", "mkab", "mkz"}).Draw(t, "str"))
		}},
		{expr: "bool", kind: "bool", caps: caps{true, false, false, false, true, true}, lit: func(t *rapid.T) string {
			return strconv.FormatBool(rapid.Bool().Draw(t, "bool"))
		}},
		{expr: "[]byte", kind: "bytes", caps: caps{true, false, true, false, true, true}, lit: func(t *rapid.T) string {
			return rapid.SampledFrom([]string{"nil", "[]byte{}", "[]byte{1}", "[]byte{1, 2}"}).Draw(t, "bytes")
		}},
		{expr: "time.Time", kind: "time", imports: []string{"time"}, caps: caps{true, true, false, false, false, true}, lit: func(t *rapid.T) string {
			return rapid.SampledFrom([]string{"time.Unix(0, 0).UTC()", "time.Unix(1700000000, 0).UTC()", "time.Unix(1700000000, 0).In(time.FixedZone(\"x\", 3600))"}).Draw(t, "time")
		}},
	}
}

func dCompose(t *rapid.T, depth int, classes []string, base []dty, nested []dty) dty {
	return dComposeEx(t, depth, classes, base, nested, nil, false)
}

// dComposeEx: ex switches the extra constructors on (inline struct types, hand-written generic types with
// instance functions); wrapped = the type is an element of another type (then an inline struct may only have
// exported fields: gombok accepts private fields of an unnamed struct only directly in a field of a struct
// of the working package).
func dComposeEx(t *rapid.T, depth int, classes []string, base []dty, nested []dty, ex *dextras, wrapped bool) dty {
	ok := func(d dty) bool {
		for _, c := range classes {
			if !d.caps.has(c) {
				return false
			}
		}
		return true
	}
	var cands []dty
	for _, b := range base {
		if ok(b) {
			cands = append(cands, b)
		}
	}
	for _, n := range nested {
		if ok(n) {
			cands = append(cands, n, n)
		}
	}
	if len(cands) == 0 {
		return dty{}
	}
	if depth <= 0 {
		return rapid.SampledFrom(cands).Draw(t, "leaf")
	}
	elemOf := func() dty { return dComposeEx(t, depth-1, classes, base, nested, ex, true) }
	kinds := []string{"leaf", "leaf", "option", "seq", "slice", "ptr", "gomap", "fpmap", "tuple2"}
	if ex != nil {
		if ex.inline {
			kinds = append(kinds, "inline", "inline")
		}
		if ex.box {
			kinds = append(kinds, "box", "box")
		}
		if ex.pair {
			kinds = append(kinds, "pair")
		}
	}
	kind := rapid.SampledFrom(kinds).Draw(t, "dkind")
	var r dty
	switch kind {
	case "leaf":
		return rapid.SampledFrom(cands).Draw(t, "leaf")
	case "inline":
		r = dInline(t, classes, base, wrapped || hasClass(classes, "Show"))
	case "box":
		r = mkBox(elemOf())
	case "pair":
		r = mkPair(rapid.SampledFrom([]string{"int", "string"}).Draw(t, "pairKey"), elemOf())
	case "option":
		e := elemOf()
		r = dty{expr: "fp.Option[" + e.expr + "]", kind: "option", caps: e.caps, imports: e.imports, lit: func(t *rapid.T) string {
			if rapid.IntRange(0, 2).Draw(t, "none") == 0 {
				return "option.None[" + e.expr + "]()"
			}
			return "option.Some[" + e.expr + "](" + e.lit(t) + ")"
		}}
	case "seq":
		e := elemOf()
		c := e.caps
		c.monoid = true // MergeSeq needs no element monoid
		r = dty{expr: "fp.Seq[" + e.expr + "]", kind: "fp.Seq", caps: c, imports: e.imports, lit: func(t *rapid.T) string {
			n := rapid.IntRange(0, 2).Draw(t, "n")
			if n == 0 {
				return rapid.SampledFrom([]string{"nil", "fp.Seq[" + e.expr + "]{}"}).Draw(t, "emptyseq")
			}
			var xs []string
			for i := 0; i < n; i++ {
				xs = append(xs, e.lit(t))
			}
			return "fp.Seq[" + e.expr + "]{" + strings.Join(xs, ", ") + "}"
		}}
	case "slice":
		e := elemOf()
		if e.expr == "uint8" {
			e = base[0]
		}
		c := e.caps
		c.monoid = true
		r = dty{expr: "[]" + e.expr, kind: "slice", caps: c, imports: e.imports, lit: func(t *rapid.T) string {
			n := rapid.IntRange(0, 2).Draw(t, "n")
			if n == 0 {
				return rapid.SampledFrom([]string{"nil", "[]" + e.expr + "{}"}).Draw(t, "emptyslice")
			}
			var xs []string
			for i := 0; i < n; i++ {
				xs = append(xs, e.lit(t))
			}
			return "[]" + e.expr + "{" + strings.Join(xs, ", ") + "}"
		}}
	case "ptr":
		e := elemOf()
		c := e.caps
		c.monoid = false
		r = dty{expr: "*" + e.expr, kind: "pointer", caps: c, imports: e.imports, lit: func(t *rapid.T) string {
			if rapid.IntRange(0, 2).Draw(t, "nil") == 0 {
				return "nil"
			}
			return "ptrOf[" + e.expr + "](" + e.lit(t) + ")"
		}}
	case "gomap":
		e := elemOf()
		c := caps{eq: e.caps.eq, clone: e.caps.clone, show: e.caps.show, monoid: true}
		var lastKeys, lastVals []string // the previous literal of this field: the next one may be its near-copy
		r = dty{expr: "map[string]" + e.expr, kind: "map", caps: c, imports: e.imports, lit: func(t *rapid.T) string {
			if len(lastKeys) > 0 && rapid.Bool().Draw(t, "renameOneKey") {
				// same size, same values, one key renamed: equal sizes, different key sets
				j := rapid.IntRange(0, len(lastKeys)-1).Draw(t, "renamed")
				var xs []string
				for i := range lastKeys {
					k := lastKeys[i]
					if i == j {
						k = "r" + k
					}
					xs = append(xs, fmt.Sprintf("%q: %s", k, lastVals[i]))
				}
				return "map[string]" + e.expr + "{" + strings.Join(xs, ", ") + "}"
			}
			n := rapid.IntRange(0, 2).Draw(t, "n")
			if n == 0 {
				lastKeys, lastVals = nil, nil
				return rapid.SampledFrom([]string{"nil", "map[string]" + e.expr + "{}"}).Draw(t, "emptymap")
			}
			lastKeys, lastVals = nil, nil
			var xs []string
			for i := 0; i < n; i++ {
				// a third of the entries hold the zero value of the element type: a lookup of a key the other
				// map lacks also yields that zero value (the comma-ok result is what tells them apart)
				v := e.lit(t)
				if rapid.IntRange(0, 2).Draw(t, "zeroValue") == 0 {
					v = "*new(" + e.expr + ")"
				}
				key := rapid.SampledFrom([]string{"k0", "k1", "k2"}).Draw(t, "key") + strconv.Itoa(i)
				lastKeys, lastVals = append(lastKeys, key), append(lastVals, v)
				xs = append(xs, fmt.Sprintf("%q: %s", key, v))
			}
			return "map[string]" + e.expr + "{" + strings.Join(xs, ", ") + "}"
		}}
	case "fpmap":
		e := elemOf()
		c := caps{eq: e.caps.eq, monoid: true}
		r = dty{expr: "fp.Map[string, " + e.expr + "]", kind: "fp.Map", caps: c, imports: e.imports, lit: func(t *rapid.T) string {
			s := "fp.Map[string, " + e.expr + "]{}"
			n := rapid.IntRange(0, 2).Draw(t, "n")
			for i := 0; i < n; i++ {
				s += fmt.Sprintf(".Updated(%q, %s)", rapid.SampledFrom([]string{"k0", "k1", "k2"}).Draw(t, "key"), e.lit(t))
			}
			return s
		}}
	default:
		a, b := elemOf(), elemOf()
		r = dty{expr: "fp.Tuple2[" + a.expr + ", " + b.expr + "]", kind: "fp.Tuple2", caps: a.caps.and(b.caps), imports: append(a.imports, b.imports...), lit: func(t *rapid.T) string {
			return "fp.Tuple2[" + a.expr + ", " + b.expr + "]{I1: " + a.lit(t) + ", I2: " + b.lit(t) + "}"
		}}
	}
	if !ok(r) {
		return rapid.SampledFrom(cands).Draw(t, "fallback")
	}
	return r
}

// ---- extra shapes: inline struct types, hand-written generic types with instance functions, named
// non-struct types, instances imported from a second package ------------------------------------------

func hasClass(classes []string, c string) bool {
	for _, x := range classes {
		if x == c {
			return true
		}
	}
	return false
}

// ExcludeShape lists grammar shapes that are switched off (VERIF_C08_SHAPES=+name,-name switches a shape
// off / on). Shapes: wide, inline, labelled, given-func, named, import-given, clone-named-container, wide-ord.
//
// clone-named-container is OFF by default (suspected defect, reported, not decided): Clone derived for a
// struct with a field of a named slice/map type (`type Names []string`) that has no Clone instance of its
// own resolves to the catch-all clone.Given[Names]() - a shallow copy sharing the array / map.
//
// wide-ord is OFF by default (reported, not decided): the Ord instances of the ord package nest
// ord.New(eq, less), whose Compare evaluates Eqv first and Less afterwards, both of which recurse into the
// instance of the remaining fields: Less / Compare / Eqv of a derived Ord take time exponential in the
// number of leading fields two values agree on (22 int fields, first 18 equal: 1 s per call, doubling with
// every further field), so the law test of a 22-25 field struct does not finish.
var ExcludeShape = map[string]bool{"clone-named-container": true, "wide-ord": true}

func init() {
	for _, n := range strings.Split(os.Getenv("VERIF_C08_SHAPES"), ",") {
		n = strings.TrimSpace(n)
		switch {
		case strings.HasPrefix(n, "+"):
			ExcludeShape[n[1:]] = true
		case strings.HasPrefix(n, "-"):
			delete(ExcludeShape, n[1:])
		}
	}
}

// dimp: one typeclass instance for a basic type declared by the second scratch package pb and imported
// with @fp.ImportGiven; neither the derive package nor (unless local != "") the working package has one.
type dimp struct {
	class, typ string
	tag        string // semantics of pb's instance
	name       string // name of pb's variable
	local      string // semantics of an instance the working package declares as well ("" = none): it wins
}

type dextras struct {
	inline   bool
	box      bool                         // type Box[T any] struct{ V T; N int } + func <Class>Box[T any](fp.<Class>[T]) fp.<Class>[Box[T]]
	pair     bool                         // type Pair[K, V any] + instance functions that take an instance for V only
	bag      bool                         // type Bag[T any] + func EqBag[T any](fp.Eq[T], fp.Ord[T]) with @fp.ImportGiven of ord
	handFunc bool                         // hand-written instances of named types are functions `func EqMyInt() fp.Eq[MyInt]`, not variables
	named    map[string]map[string]string // named non-struct type -> class -> none | hand | derive | auto ("" = unavailable)
	myIntMon string                       // sum | product: the hand-written MonoidMyInt
	imp      []dimp
}

var dNamedTypes = []string{"MyInt", "MyStr", "Names", "Index"}
var dNamedUnder = map[string]string{"MyInt": "int", "MyStr": "string", "Names": "[]string", "Index": "map[string]int"}

// modes gombok supports for (named type, class) without / with @fp.Derive(recursive=true):
//
//	none   no instance, no directive: the derive package's Given / Number form applies (comparable / number types)
//	hand   a hand-written instance in the working package (semantics observably different from the default)
//	derive `// @fp.Derive var _ eq.Derives[fp.Eq[Names]]`: instance of the underlying type, converted
//	auto   under recursive=true gombok derives the instance of the underlying type by itself
//
// Left out: Monoid of MyInt / MyStr without an instance (the lookup falls to whichever of monoid.Product /
// monoid.Sum comes first: nothing says which is right); a named slice / map type without any instance
// outside recursive=true (gombok emits a reference to the undeclared `EqNames()` - its way of asking for one).
func dNamedModes(name, class string, rec bool) []string {
	deriv := "derive"
	if rec {
		deriv = "auto"
	}
	switch name {
	case "MyInt":
		if class == "Monoid" {
			if rec {
				return []string{"hand"}
			}
			return []string{"hand", "derive"}
		}
		if rec {
			return []string{"none", "hand"}
		}
		return []string{"none", "hand", "derive"}
	case "MyStr":
		switch class {
		case "Eq", "Ord":
			if rec {
				return []string{"none", "hand"}
			}
			return []string{"none", "hand", "derive"}
		case "Clone":
			if rec {
				return []string{"auto", "hand"}
			}
			return []string{"none", "hand", "derive"}
		case "Monoid":
			if rec {
				return []string{"hand"}
			}
			return []string{"hand", "derive"}
		}
		return []string{"hand", deriv}
	case "Names":
		if class == "Clone" && !rec && !ExcludeShape["clone-named-container"] {
			return []string{"none", "hand", "derive"}
		}
		return []string{"hand", deriv}
	case "Index":
		switch class {
		case "Ord", "Hashable": // the derive packages have no GoMap instance
			return []string{"hand"}
		case "Clone":
			if !rec && !ExcludeShape["clone-named-container"] {
				return []string{"none", "hand", "derive"}
			}
		}
		return []string{"hand", deriv}
	}
	return nil
}

// semantics tag of the hand-written instance (the reference library knows these tags)
func dNamedHandTag(ex *dextras, name, class string) string {
	switch class {
	case "Clone":
		return "" // a lawful Clone is an equal copy whoever wrote it
	case "Show":
		if name == "MyStr" {
			return "brackets"
		}
		return ""
	}
	switch name {
	case "MyInt":
		switch class {
		case "Eq", "Hashable":
			return "mod7"
		case "Ord":
			return "rev"
		case "Monoid":
			return ex.myIntMon
		}
	case "MyStr", "Names":
		if class == "Monoid" {
			return "revconcat"
		}
		return "len"
	case "Index":
		if class == "Monoid" {
			return "leftunion"
		}
		return "len"
	}
	return ""
}

func dNamedHandDecl(ex *dextras, name, class string) string {
	var body string
	lenEq := "eq.New(func(a, b " + name + ") bool { return len(a) == len(b) })"
	switch class {
	case "Eq":
		body = lenEq
		if name == "MyInt" {
			body = "eq.New(func(a, b MyInt) bool { return a%7 == b%7 })"
		}
	case "Ord":
		body = "ord.New(" + lenEq + ", func(a, b " + name + ") bool { return len(a) < len(b) })"
		if name == "MyInt" {
			body = "ord.New(eq.Given[MyInt](), func(a, b MyInt) bool { return a > b })"
		}
	case "Hashable":
		body = "hash.New(" + lenEq + ", func(a " + name + ") uint32 { return uint32(len(a)) })"
		if name == "MyInt" {
			body = "hash.New(eq.New(func(a, b MyInt) bool { return a%7 == b%7 }), func(a MyInt) uint32 { return uint32(a % 7) })"
		}
	case "Monoid":
		switch name {
		case "MyInt":
			body = "monoid.Sum[MyInt]()"
			if ex.myIntMon == "product" {
				body = "monoid.Product[MyInt]()"
			}
		case "MyStr":
			body = "monoid.New(func() MyStr { return \"\" }, func(a, b MyStr) MyStr { return b + a })"
		case "Names":
			body = "monoid.New(func() Names { return nil }, func(a, b Names) Names { return append(append(Names{}, b...), a...) })"
		case "Index":
			body = "monoid.New(func() Index { return nil }, func(a, b Index) Index {\n\tr := Index{}\n\tfor k, v := range b {\n\t\tr[k] = v\n\t}\n\tfor k, v := range a {\n\t\tr[k] = v\n\t}\n\treturn r\n})"
		}
	case "Clone":
		switch name {
		case "MyInt", "MyStr":
			body = "clone.New(func(a " + name + ") " + name + " { return a })"
		case "Names":
			body = "clone.New(func(a Names) Names { return append(Names{}, a...) })"
		case "Index":
			body = "clone.New(func(a Index) Index {\n\tr := Index{}\n\tfor k, v := range a {\n\t\tr[k] = v\n\t}\n\treturn r\n})"
		}
	case "Show":
		switch name {
		case "MyInt":
			body = "show.New(func(a MyInt) string { return fmt.Sprintf(\"MyInt#%d\", int(a)) })"
		case "MyStr":
			body = "show.New(func(a MyStr) string { return \"<<\" + string(a) + \">>\" })"
		case "Names":
			body = "show.New(func(a Names) string { return \"Names\" + fmt.Sprint([]string(a)) })"
		case "Index":
			body = "show.New(func(a Index) string { return \"Index\" + fmt.Sprint(map[string]int(a)) })"
		}
	}
	if ex.handFunc {
		return fmt.Sprintf("// hand-written instance of the named type %s (function form)\nfunc %s%s() fp.%s[%s] {\n\treturn %s\n}\n\n", name, class, name, class, name, body)
	}
	return fmt.Sprintf("// hand-written instance of the named type %s\nvar %s%s = %s\n\n", name, class, name, body)
}

func dNamedLeaf(name string, c caps) dty {
	d := dty{expr: name, kind: "named-" + name, caps: c}
	switch name {
	case "MyInt":
		d.lit = func(t *rapid.T) string {
			return "MyInt(" + strconv.Itoa(rapid.SampledFrom([]int{0, 1, 2, 3, 7, 8, 14}).Draw(t, "myint")) + ")"
		}
	case "MyStr":
		d.lit = func(t *rapid.T) string {
			return "MyStr(" + strconv.Quote(rapid.SampledFrom([]string{"", "mka", "mkb", "mkab", "mkz"}).Draw(t, "mystr")) + ")"
		}
	case "Names":
		d.lit = func(t *rapid.T) string {
			return rapid.SampledFrom([]string{"nil", "Names{}", `Names{"mka"}`, `Names{"mkb"}`, `Names{"mka", "mkb"}`, `Names{"mkb", "mka"}`}).Draw(t, "names")
		}
	case "Index":
		d.lit = func(t *rapid.T) string {
			return rapid.SampledFrom([]string{"nil", "Index{}", `Index{"k0": 1}`, `Index{"k0": 2}`, `Index{"k1": 1}`, `Index{"k0": 1, "k1": 3}`, `Index{"k1": 11, "k2": 0}`}).Draw(t, "index")
		}
	}
	return d
}

func mkBox(e dty) dty {
	return dty{expr: "Box[" + e.expr + "]", kind: "box", caps: e.caps, imports: e.imports, nested: e.nested, lit: func(t *rapid.T) string {
		return "Box[" + e.expr + "]{V: " + e.lit(t) + ", N: " + strconv.Itoa(rapid.IntRange(0, 3).Draw(t, "boxN")) + "}"
	}}
}

func mkPair(key string, e dty) dty {
	c := e.caps
	c.monoid = false // no lawful Monoid for Pair[K, V] can do without an instance for K
	return dty{expr: "Pair[" + key + ", " + e.expr + "]", kind: "pair", caps: c, imports: e.imports, nested: e.nested, lit: func(t *rapid.T) string {
		k := strconv.Itoa(rapid.IntRange(0, 3).Draw(t, "pairK"))
		if key == "string" {
			k = strconv.Quote("k" + k)
		}
		return "Pair[" + key + ", " + e.expr + "]{Key: " + k + ", Val: " + e.lit(t) + "}"
	}}
}

func dBagLeafs() []dty {
	return []dty{
		{expr: "Bag[int]", kind: "bag", caps: caps{eq: true}, lit: func(t *rapid.T) string {
			return "Bag[int]{Items: " + rapid.SampledFrom([]string{"nil", "[]int{1}", "[]int{1, 2}", "[]int{2, 1}", "[]int{11, 2}", "[]int{1, 12}", "[]int{1, 1, 2}", "[]int{2, 1, 1}", "[]int{2, 1, 2}"}).Draw(t, "bag") + "}"
		}},
		{expr: "Bag[string]", kind: "bag", caps: caps{eq: true}, lit: func(t *rapid.T) string {
			return "Bag[string]{Items: " + rapid.SampledFrom([]string{"nil", `[]string{"mka"}`, `[]string{"mka", "mkb"}`, `[]string{"mkb", "mka"}`, `[]string{"mkb", "mka", "mka"}`, `[]string{"mka", "mkb", "mka"}`}).Draw(t, "bag") + "}"
		}},
	}
}

// dInline: an unnamed struct type with 1-3 fields.
func dInline(t *rapid.T, classes []string, base []dty, exportedOnly bool) dty {
	n := rapid.IntRange(1, 3).Draw(t, "inlineFields")
	var fs []dfield
	c := all
	var imports []string
	for i := 0; i < n; i++ {
		ft := dComposeEx(t, rapid.IntRange(0, 1).Draw(t, "inlineDepth"), classes, base, nil, nil, true)
		if ft.expr == "" {
			ft = base[4]
		}
		name := []string{"A", "B", "C"}[i]
		if !exportedOnly && i > 0 && rapid.Bool().Draw(t, "inlinePrivate") {
			name = strings.ToLower(name) + "x"
		}
		fs = append(fs, dfield{name: name, t: ft})
		c = c.and(ft.caps)
		imports = append(imports, ft.imports...)
	}
	var decl []string
	for _, f := range fs {
		decl = append(decl, f.name+" "+f.t.expr)
	}
	expr := "struct{ " + strings.Join(decl, "; ") + " }"
	return dty{expr: expr, kind: "inline-struct", caps: c, imports: imports, lit: func(t *rapid.T) string {
		var parts []string
		for _, f := range fs {
			parts = append(parts, f.name+": "+f.t.lit(t))
		}
		return expr + "{" + strings.Join(parts, ", ") + "}"
	}}
}

// drawExtras decides which helper declarations the package has. single = one-package sources only (C13).
func drawExtras(t *rapid.T, focus string, rec bool, single bool) *dextras {
	ex := &dextras{named: map[string]map[string]string{}}
	on := func(shape string, oneIn int) bool {
		if ExcludeShape[shape] {
			return false
		}
		if focus == shape {
			return true
		}
		return rapid.IntRange(0, oneIn-1).Draw(t, "shape-"+shape) == 0
	}
	ex.inline = on("inline", 4)
	if on("given-func", 4) {
		ex.box = focus == "given-func" || rapid.IntRange(0, 3).Draw(t, "box") > 0
		ex.pair = rapid.Bool().Draw(t, "pair")
		ex.bag = rapid.IntRange(0, 2).Draw(t, "bag") == 0
		if !ex.pair && !ex.bag {
			ex.box = true
		}
	}
	if on("named", 4) {
		ex.handFunc = rapid.Bool().Draw(t, "handFunc")
		ex.myIntMon = rapid.SampledFrom([]string{"sum", "product"}).Draw(t, "myIntMonoid")
		for _, n := range dNamedTypes {
			if focus != "named" && rapid.Bool().Draw(t, "skip"+n) {
				continue
			}
			m := map[string]string{}
			for _, c := range dClasses {
				modes := dNamedModes(n, c, rec)
				if len(modes) > 0 {
					m[c] = rapid.SampledFrom(modes).Draw(t, "mode"+n+c)
				}
			}
			ex.named[n] = m
		}
	}
	if !single && on("import-given", 5) {
		used := map[string]bool{}
		for _, c := range []dimp{
			{class: "Monoid", typ: "int64", tag: "product"},
			{class: "Monoid", typ: "int64", tag: "sum"},
			{class: "Monoid", typ: "bool", tag: "or"},
			{class: "Ord", typ: "bool", tag: "falsefirst"},
			{class: "Ord", typ: "bool", tag: "truefirst"},
			{class: "Hashable", typ: "bool", tag: "plain"},
		} {
			if used[c.class+c.typ] || rapid.IntRange(0, 2).Draw(t, "imp"+c.class+c.typ+c.tag) == 0 {
				continue
			}
			used[c.class+c.typ] = true
			// pb names its instance like a working package (MonoidInt64) or like a derive package (Int64)
			c.name = c.class + strings.ToUpper(c.typ[:1]) + c.typ[1:]
			if short := strings.ToUpper(c.typ[:1]) + c.typ[1:]; !used["name:"+short] && rapid.Bool().Draw(t, "impShortName") {
				c.name = short
			}
			used["name:"+c.name] = true
			if rapid.IntRange(0, 3).Draw(t, "impLocalOverride") == 0 {
				c.local = map[string]string{"product": "sum", "sum": "product", "or": "and", "falsefirst": "truefirst", "truefirst": "falsefirst", "plain": "plain"}[c.tag]
			}
			ex.imp = append(ex.imp, c)
		}
		if len(ex.imp) == 0 {
			ex.imp = append(ex.imp, dimp{class: "Monoid", typ: "int64", tag: "product", name: "MonoidInt64"})
		}
	}
	return ex
}

// leaf field types the extras add (named types, Bag) and the basic types the imported instances enable
func (ex *dextras) patchBase(base []dty) []dty {
	for _, im := range ex.imp {
		for i := range base {
			if base[i].expr == im.typ && base[i].kind != "typeparam" {
				switch im.class {
				case "Monoid":
					base[i].caps.monoid = true
				case "Ord":
					base[i].caps.ord = true
				case "Hashable":
					base[i].caps.hash = true
				}
			}
		}
	}
	for _, n := range dNamedTypes {
		m, ok := ex.named[n]
		if !ok {
			continue
		}
		c := caps{eq: m["Eq"] != "", ord: m["Ord"] != "", hash: m["Hashable"] != "", monoid: m["Monoid"] != "", clone: m["Clone"] != "", show: m["Show"] != ""}
		base = append(base, dNamedLeaf(n, c))
	}
	if ex.bag {
		base = append(base, dBagLeafs()...)
	}
	return base
}

// sem: "<Class>:<type>" -> semantics tag of the instance the lookup rules select, for the reference library
func (p dpkg) sem() map[string]string {
	m := map[string]string{}
	ex := p.ex
	if ex == nil {
		return m
	}
	for _, c := range dClasses {
		if ex.box {
			m[c+":Box"] = "box"
		}
		if ex.pair {
			m[c+":Pair"] = "pairval"
		}
	}
	if ex.bag {
		m["Eq:Bag"] = "bag"
	}
	for n, modes := range ex.named {
		for c, mode := range modes {
			switch mode {
			case "hand":
				if tag := dNamedHandTag(ex, n, c); tag != "" {
					m[c+":"+n] = tag
				}
			case "derive", "auto":
				m[c+":"+n] = "newtype"
			}
		}
	}
	for _, im := range ex.imp {
		tag := im.tag
		if im.local != "" {
			tag = im.local
		}
		m[im.class+":"+im.typ] = tag
	}
	return m
}

func dImpBody(class, typ, tag string) string {
	switch class + ":" + tag {
	case "Monoid:product":
		return "monoid.Product[" + typ + "]()"
	case "Monoid:sum":
		return "monoid.Sum[" + typ + "]()"
	case "Monoid:or":
		return "monoid.New(func() bool { return false }, func(a, b bool) bool { return a || b })"
	case "Monoid:and":
		return "monoid.New(func() bool { return true }, func(a, b bool) bool { return a && b })"
	case "Ord:falsefirst":
		return "ord.New(eq.Given[bool](), func(a, b bool) bool { return !a && b })"
	case "Ord:truefirst":
		return "ord.New(eq.Given[bool](), func(a, b bool) bool { return a && !b })"
	}
	return "hash.New(eq.Given[bool](), func(a bool) uint32 {\n\tif a {\n\t\treturn 1\n\t}\n\treturn 0\n})"
}

// sourcePb: the second scratch package whose instances the working package imports with @fp.ImportGiven
func (p dpkg) sourcePb() string {
	if p.ex == nil || len(p.ex.imp) == 0 {
		return ""
	}
	var sb strings.Builder
	sb.WriteString("package pb\n\nimport (\n\t\"github.com/csgura/fp\"\n\t\"github.com/csgura/fp/eq\"\n\t\"github.com/csgura/fp/hash\"\n\t\"github.com/csgura/fp/monoid\"\n\t\"github.com/csgura/fp/ord\"\n)\n\nvar _ fp.Unit\nvar _ = eq.Given[int]\nvar _ = hash.String\nvar _ = monoid.String\nvar _ = ord.Given[int]\n\n// Derives names this package in @fp.ImportGiven directives\ntype Derives[T any] interface{}\n\n")
	for _, im := range p.ex.imp {
		fmt.Fprintf(&sb, "var %s = %s\n\n", im.name, dImpBody(im.class, im.typ, im.tag))
	}
	return sb.String()
}

// helper declarations of the working package (types, hand-written instances, directives for named types)
func (p dpkg) sourceExtras(uses map[string]bool) string {
	ex := p.ex
	if ex == nil {
		return ""
	}
	mentioned := func(name string) bool {
		for _, s := range p.structs {
			for _, f := range s.fields {
				if strings.Contains(f.t.expr, name) {
					return true
				}
			}
		}
		return false
	}
	var sb strings.Builder
	if len(ex.imp) > 0 {
		seen := map[string]bool{}
		for _, im := range ex.imp {
			if !seen[im.class] {
				seen[im.class] = true
				fmt.Fprintf(&sb, "// instances of fp.%s declared by package pb take part in the lookup\n// @fp.ImportGiven\nvar _ pb.Derives[fp.%s[any]]\n\n", im.class, im.class)
			}
		}
		for _, im := range ex.imp {
			if im.local != "" {
				fmt.Fprintf(&sb, "// local instance: wins over the imported pb.%s\nvar %s%s = %s\n\n", im.name, im.class, strings.ToUpper(im.typ[:1])+im.typ[1:], dImpBody(im.class, im.typ, im.local))
			}
		}
	}
	if ex.box && mentioned("Box[") {
		sb.WriteString("// Box is a hand-written generic type; its instances are hand-written generic functions\ntype Box[T any] struct {\n\tV T\n\tN int\n}\n\n")
		if uses["Eq"] {
			sb.WriteString("func EqBox[T any](e fp.Eq[T]) fp.Eq[Box[T]] {\n\treturn eq.New(func(a, b Box[T]) bool { return e.Eqv(a.V, b.V) })\n}\n\n")
		}
		if uses["Ord"] {
			sb.WriteString("func OrdBox[T any](o fp.Ord[T]) fp.Ord[Box[T]] {\n\treturn ord.New(eq.New(func(a, b Box[T]) bool { return o.Eqv(a.V, b.V) }), func(a, b Box[T]) bool { return o.Less(a.V, b.V) })\n}\n\n")
		}
		if uses["Hashable"] {
			sb.WriteString("func HashableBox[T any](h fp.Hashable[T]) fp.Hashable[Box[T]] {\n\treturn hash.New(eq.New(func(a, b Box[T]) bool { return h.Eqv(a.V, b.V) }), func(a Box[T]) uint32 { return h.Hash(a.V) })\n}\n\n")
		}
		if uses["Monoid"] {
			sb.WriteString("func MonoidBox[T any](m fp.Monoid[T]) fp.Monoid[Box[T]] {\n\treturn monoid.New(func() Box[T] { return Box[T]{V: m.Empty()} }, func(a, b Box[T]) Box[T] { return Box[T]{V: m.Combine(a.V, b.V), N: a.N + b.N} })\n}\n\n")
		}
		if uses["Clone"] {
			sb.WriteString("func CloneBox[T any](c fp.Clone[T]) fp.Clone[Box[T]] {\n\treturn clone.New(func(a Box[T]) Box[T] { return Box[T]{V: c.Clone(a.V), N: a.N} })\n}\n\n")
		}
		if uses["Show"] {
			sb.WriteString("func ShowBox[T any](s fp.Show[T]) fp.Show[Box[T]] {\n\treturn show.New(func(a Box[T]) string { return \"Box<\" + s.Show(a.V) + \">\" })\n}\n\n")
		}
	}
	if ex.pair && mentioned("Pair[") {
		sb.WriteString("// Pair: its hand-written instance functions take an instance for V only (K cannot be inferred from the arguments)\ntype Pair[K, V any] struct {\n\tKey K\n\tVal V\n}\n\n")
		if uses["Eq"] {
			sb.WriteString("func EqPair[K, V any](e fp.Eq[V]) fp.Eq[Pair[K, V]] {\n\treturn eq.New(func(a, b Pair[K, V]) bool { return e.Eqv(a.Val, b.Val) })\n}\n\n")
		}
		if uses["Ord"] {
			sb.WriteString("func OrdPair[K, V any](o fp.Ord[V]) fp.Ord[Pair[K, V]] {\n\treturn ord.New(eq.New(func(a, b Pair[K, V]) bool { return o.Eqv(a.Val, b.Val) }), func(a, b Pair[K, V]) bool { return o.Less(a.Val, b.Val) })\n}\n\n")
		}
		if uses["Hashable"] {
			sb.WriteString("func HashablePair[K, V any](h fp.Hashable[V]) fp.Hashable[Pair[K, V]] {\n\treturn hash.New(eq.New(func(a, b Pair[K, V]) bool { return h.Eqv(a.Val, b.Val) }), func(a Pair[K, V]) uint32 { return h.Hash(a.Val) })\n}\n\n")
		}
		if uses["Clone"] {
			sb.WriteString("func ClonePair[K, V any](c fp.Clone[V]) fp.Clone[Pair[K, V]] {\n\treturn clone.New(func(a Pair[K, V]) Pair[K, V] { return Pair[K, V]{Key: a.Key, Val: c.Clone(a.Val)} })\n}\n\n")
		}
		if uses["Show"] {
			sb.WriteString("func ShowPair[K, V any](s fp.Show[V]) fp.Show[Pair[K, V]] {\n\treturn show.New(func(a Pair[K, V]) string { return \"Pair<\" + s.Show(a.Val) + \">\" })\n}\n\n")
		}
	}
	if ex.bag && mentioned("Bag[") {
		sb.WriteString("// as documented for @fp.ImportGiven: instances of fp.Ord take part in deriving fp.Eq\n// @fp.ImportGiven\nvar _ ord.Derives[fp.Ord[any]]\n\n// Bag: equality up to the order of the items\ntype Bag[T any] struct {\n\tItems []T\n}\n\nfunc EqBag[T any](e fp.Eq[T], o fp.Ord[T]) fp.Eq[Bag[T]] {\n\treturn eq.New(func(a, b Bag[T]) bool {\n\t\treturn eq.Seq(e).Eqv(seq.Sort(fp.Seq[T](a.Items), o), seq.Sort(fp.Seq[T](b.Items), o))\n\t})\n}\n\n")
	}
	for _, n := range dNamedTypes {
		modes, ok := ex.named[n]
		if !ok || !mentioned(n) {
			continue
		}
		fmt.Fprintf(&sb, "type %s %s\n\n", n, dNamedUnder[n])
		for _, c := range dClasses {
			if !uses[c] {
				continue
			}
			switch modes[c] {
			case "hand":
				sb.WriteString(dNamedHandDecl(ex, n, c))
			case "derive":
				fmt.Fprintf(&sb, "// @fp.Derive\nvar _ %s.Derives[fp.%s[%s]]\n\n", dClassPkg[c], c, n)
			}
		}
	}
	return sb.String()
}

type dfield struct {
	name string
	t    dty
}

type dstruct struct {
	name      string
	params    []string // type parameter names (constraint any), instantiated with int, string
	fields    []dfield
	classes   []string
	recursive bool // self reference through a pointer field
	plain     bool // no @fp.Value: a "legacy" struct with exported (or mixed) fields
	labelled  bool // @fp.GenLabelled in addition to @fp.Value
	wide      bool // 22-25 fields: beyond the tuple limit, gombok uses the HList representation
	values    [][]string
}

type dpkg struct {
	errVar        bool
	structs       []dstruct
	intEq10       bool
	intOrdRev     bool
	intProd       bool
	monoidInt     bool
	recFlag       bool // @fp.Derive(recursive=true) on the last struct only, nested ones not derived explicitly
	excludedKnown bool
	ex            *dextras
}

var dClasses = []string{"Eq", "Ord", "Hashable", "Monoid", "Clone", "Show"}
var dClassPkg = map[string]string{"Eq": "eq", "Ord": "ord", "Hashable": "hash", "Monoid": "monoid", "Clone": "clone", "Show": "show"}

func paramInst(p string) string {
	if p == "TA" {
		return "int"
	}
	return "string"
}

func (s dstruct) instExpr() string {
	if len(s.params) == 0 {
		return s.name
	}
	var ps []string
	for _, p := range s.params {
		ps = append(ps, paramInst(p))
	}
	return s.name + "[" + strings.Join(ps, ", ") + "]"
}

func (s dstruct) anyExpr() string {
	if len(s.params) == 0 {
		return s.name
	}
	var ps []string
	for range s.params {
		ps = append(ps, "any")
	}
	return s.name + "[" + strings.Join(ps, ", ") + "]"
}

func (s dstruct) declParams() string {
	if len(s.params) == 0 {
		return ""
	}
	var ps []string
	for _, p := range s.params {
		ps = append(ps, p+" any")
	}
	return "[" + strings.Join(ps, ", ") + "]"
}

func substD(expr string, s dstruct) string {
	for _, p := range s.params {
		expr = strings.ReplaceAll(expr, "«"+p+"»", paramInst(p))
	}
	return expr
}

func capsOK(d dty, classes []string) bool {
	for _, c := range classes {
		if !d.caps.has(c) {
			return false
		}
	}
	return true
}

// focuses that switch one of the extra shapes on for every package of the sub-check
var dShapeFocus = map[string]bool{"wide": true, "inline": true, "labelled": true, "given-func": true, "named": true, "import-given": true}

func drawDPkg(t *rapid.T, excl map[string]bool, focus string) dpkg {
	return drawDPkgOpt(t, excl, focus, false)
}

// drawDPkgOpt: single = the package must not need a second scratch package (C13 takes one source file).
func drawDPkgOpt(t *rapid.T, excl map[string]bool, focus string, single bool) dpkg {
	var p dpkg
	p.monoidInt = true
	p.intEq10 = rapid.IntRange(0, 3).Draw(t, "overrideEqInt") == 0
	p.intOrdRev = rapid.IntRange(0, 3).Draw(t, "overrideOrdInt") == 0
	p.intProd = rapid.Bool().Draw(t, "monoidIntProduct")
	// an ordinary package-level sentinel `var ErrX = errors.New(..)`: gombok scans the package's variables
	// and functions for typeclass instances, whatever their type
	p.errVar = rapid.Bool().Draw(t, "pkgLevelErrorVar")
	n := rapid.IntRange(1, 3).Draw(t, "nstructs")
	// recursive=true: only the last struct carries directives, nested structs get their instances implicitly
	p.recFlag = n >= 2 && rapid.IntRange(0, 2).Draw(t, "recursiveFlag") == 0
	if focus == "recursive-plain" {
		// focused shape: recursive=true over plain (non @fp.Value) nested structs
		n = rapid.IntRange(2, 3).Draw(t, "nstructsFocus")
		p.recFlag = true
	}
	if focus == "generic-nested" {
		// focused shape: a generic struct with two type parameters, used by a later struct
		n = rapid.IntRange(2, 3).Draw(t, "nstructsFocus")
		p.recFlag = false
	}
	if dShapeFocus[focus] {
		n = rapid.IntRange(1, 2).Draw(t, "nstructsFocus")
		if focus == "named" {
			n = rapid.IntRange(1, 3).Draw(t, "nstructsNamed")
		}
		p.recFlag = n >= 2 && rapid.IntRange(0, 2).Draw(t, "recursiveFlagFocus") == 0
	}
	p.ex = drawExtras(t, focus, p.recFlag, single)
	wideAt := -1
	if focus == "wide" || (!ExcludeShape["wide"] && rapid.IntRange(0, 15).Draw(t, "wideStruct") == 8) {
		wideAt = rapid.IntRange(0, n-1).Draw(t, "wideAt")
		if ExcludeShape["wide-ord"] {
			// no Ord in a package with a wide struct (see ExcludeShape)
			e2 := map[string]bool{"Ord": true}
			for k, v := range excl {
				e2[k] = v
			}
			excl = e2
		}
	}
	var pkgClasses []string
	var nested []dty
	for i := 0; i < n; i++ {
		s := dstruct{name: fmt.Sprintf("D%d", i+1)}
		// classes to derive for this struct
		if p.recFlag && pkgClasses != nil {
			s.classes = pkgClasses
		} else {
			k := rapid.IntRange(1, 3).Draw(t, "nclasses")
			perm := rapid.Permutation(dClasses).Draw(t, "classes")
			for _, c := range perm {
				if len(s.classes) < k && !excl[c] {
					s.classes = append(s.classes, c)
				}
			}
			// focused shapes need a typeclass that reaches them
			force := func(c string) {
				if !excl[c] && !hasClass(s.classes, c) {
					s.classes[len(s.classes)-1] = c
				}
			}
			switch {
			case focus == "labelled":
				force("Show") // the only derive package with Labelled / Named instances
			case focus == "given-func" && p.ex.bag && rapid.IntRange(0, 2).Draw(t, "bagFocus") == 0 && !excl["Eq"]:
				s.classes = []string{"Eq"} // EqBag is the only instance of Bag
			case focus == "import-given":
				im := rapid.SampledFrom(p.ex.imp).Draw(t, "impFocus")
				if !excl[im.class] {
					s.classes = []string{im.class}
				}
			}
			sort.Strings(s.classes)
			pkgClasses = s.classes
		}
		if !p.recFlag && rapid.IntRange(0, 3).Draw(t, "generic") == 0 {
			s.params = []string{"TA", "TB"}[:rapid.IntRange(1, 2).Draw(t, "nparams")]
		}
		if focus == "generic-nested" {
			s.params = nil
			if i == 0 {
				s.params = []string{"TA", "TB"}
			} else {
				// later structs derive what the generic one derives, so that it is usable as a field type
				s.classes = p.structs[0].classes
			}
		}
		base := dBasic(p.monoidInt)
		for _, prm := range s.params {
			prm := prm
			inst := paramInst(prm)
			var src dty
			for _, b := range base {
				if b.expr == inst {
					src = b
				}
			}
			base = append(base, dty{expr: "«" + prm + "»", kind: "typeparam", caps: src.caps, lit: src.lit, param: prm})
			base = append(base, dty{expr: "«" + prm + "»", kind: "typeparam", caps: src.caps, lit: src.lit, param: prm})
		}
		base = p.ex.patchBase(base)
		// nested structs are only usable if they derive every class this struct derives
		var usable []dty
		for _, nd := range nested {
			ok := true
			for _, c := range s.classes {
				if !nd.caps.has(c) {
					ok = false
				}
			}
			if ok {
				usable = append(usable, nd)
			}
		}
		nf := rapid.IntRange(1, 6).Draw(t, "nfields")
		if i == wideAt {
			// more fields than the largest tuple (genfp.MaxProduct = 21): HList representation
			s.wide = true
			nf = rapid.IntRange(22, 25).Draw(t, "nfieldsWide")
		}
		// a plain struct (no @fp.Value) with exported or mixed-visibility fields; never the last struct
		s.plain = len(s.params) == 0 && i < n-1 && (focus == "recursive-plain" || rapid.IntRange(0, 2).Draw(t, "plainStruct") == 0)
		if !s.plain && !ExcludeShape["labelled"] {
			s.labelled = focus == "labelled" || rapid.IntRange(0, 3).Draw(t, "genLabelled") == 0
		}
		for j := 0; j < nf; j++ {
			ft := dComposeEx(t, rapid.IntRange(0, 2).Draw(t, "depth"), s.classes, base, usable, p.ex, false)
			if dShapeFocus[focus] && i == n-1 && j < 2 {
				// the struct carrying the directives uses the focused shape in its first fields
				if f, ok := dFeatured(t, focus, p.ex, s.classes, base); ok {
					ft = f
				}
			}
			if focus == "recursive-plain" && i == n-1 && j == 0 && len(usable) > 0 {
				// the struct carrying the directive uses a nested plain struct (directly, by pointer or in a slice)
				nd := rapid.SampledFrom(usable).Draw(t, "nestedField")
				switch rapid.IntRange(0, 2).Draw(t, "nestedWrap") {
				case 0:
					ft = nd
				case 1:
					ft = dty{expr: "*" + nd.expr, kind: "pointer", caps: nd.caps, nested: nd.nested, lit: func(t *rapid.T) string { return "ptrOf[" + nd.expr + "](" + nd.lit(t) + ")" }}
				default:
					ft = dty{expr: "[]" + nd.expr, kind: "slice", caps: nd.caps, nested: nd.nested, lit: func(t *rapid.T) string { return "[]" + nd.expr + "{" + nd.lit(t) + "}" }}
				}
			}
			if focus == "generic-nested" {
				prm := func(name string) dty {
					for _, b := range base {
						if b.param == name {
							return b
						}
					}
					return base[4]
				}
				switch {
				case i == 0 && j == 0:
					// which parameter the fields use first is drawn: the declaration order is TA, TB
					ft = prm(rapid.SampledFrom([]string{"TB", "TB", "TA"}).Draw(t, "firstUsedParam"))
				case i == 0 && j == 1 && s.fields[0].t.param != "":
					ft = prm(map[string]string{"TA": "TB", "TB": "TA"}[s.fields[0].t.param])
					if rapid.IntRange(0, 4).Draw(t, "otherParamUnused") == 0 {
						ft = base[4]
					}
				case i > 0 && j == 0 && len(usable) > 0:
					nd := usable[0]
					switch rapid.IntRange(0, 3).Draw(t, "nestedWrap") {
					case 0, 1:
						ft = nd
					case 2:
						ft = dty{expr: "*" + nd.expr, kind: "pointer", caps: nd.caps, nested: nd.nested, lit: func(t *rapid.T) string { return "ptrOf[" + nd.expr + "](" + nd.lit(t) + ")" }}
					default:
						ft = dty{expr: "[]" + nd.expr, kind: "slice", caps: nd.caps, nested: nd.nested, lit: func(t *rapid.T) string { return "[]" + nd.expr + "{" + nd.lit(t) + "}" }}
					}
				}
			}
			if ft.expr == "" {
				ft = base[4] // string supports everything
			}
			name := fmt.Sprintf("g%d", j)
			if j < len(safeNames) {
				name = safeNames[j]
			}
			if s.plain && (j == 0 || rapid.Bool().Draw(t, "exported")) {
				name = strings.ToUpper(name[:1]) + name[1:]
			}
			s.fields = append(s.fields, dfield{name: name, t: ft})
		}
		// Under recursive=true a nested struct without its own directive resolves to eq.Given[T comparable]
		// (Go ==) whenever it is comparable: the documented fallback, which is field-wise only for
		// value-only structs and ignores local overriding instances. To demand field-wise semantics of
		// nested structs they are made non-comparable (then gombok derives them).
		if p.recFlag && i < n-1 {
			for _, c := range s.classes {
				if c == "Eq" {
					sl := dty{expr: "[]int", kind: "slice", caps: all, lit: func(t *rapid.T) string {
						return rapid.SampledFrom([]string{"nil", "[]int{}", "[]int{1}", "[]int{1, 2}"}).Draw(t, "extra")
					}}
					s.fields = append(s.fields, dfield{name: "Extra", t: sl})
					break
				}
			}
		}
		// recursion through a pointer (not for Monoid: Ptr monoid is out of the grammar)
		hasMonoid := false
		for _, c := range s.classes {
			if c == "Monoid" {
				hasMonoid = true
			}
		}
		if !hasMonoid && !s.plain && rapid.IntRange(0, 3).Draw(t, "recursive") == 0 {
			s.recursive = true
			// a generic struct refers to itself at its own parameters: *D[TA, TB]
			self := s.name
			if len(s.params) > 0 {
				var ps []string
				for _, prm := range s.params {
					ps = append(ps, "«"+prm+"»")
				}
				self += "[" + strings.Join(ps, ", ") + "]"
			}
			s.fields = append(s.fields, dfield{name: "next", t: dty{expr: "*" + self, kind: "self-pointer", caps: all, lit: func(t *rapid.T) string {
				if rapid.Bool().Draw(t, "nilnext") {
					return "nil"
				}
				return "&" + self + "{}"
			}}})
		}
		// values: v0 random, v1 = v0 with one field changed, v2 = v0 with a suffix changed, v3 random
		draw := func() []string {
			var l []string
			for _, f := range s.fields {
				l = append(l, f.t.lit(t))
			}
			return l
		}
		v0 := draw()
		v1 := append([]string{}, v0...)
		pidx := rapid.IntRange(0, len(s.fields)-1).Draw(t, "changeAt")
		v1[pidx] = s.fields[pidx].t.lit(t)
		v2 := append([]string{}, v0...)
		for j := pidx; j < len(s.fields); j++ {
			v2[j] = s.fields[j].t.lit(t)
		}
		s.values = [][]string{v0, v1, v2, draw(), append([]string{}, v0...)}
		p.structs = append(p.structs, s)
		{
			c := caps{}
			for _, cl := range s.classes {
				switch cl {
				case "Eq":
					c.eq = true
				case "Ord":
					c.ord = true
				case "Hashable":
					c.hash = true
					c.eq = c.eq || false
				case "Monoid":
					c.monoid = true
				case "Clone":
					c.clone = true
				case "Show":
					c.show = true
				}
			}
			sc := s
			kind := "nested-struct"
			if len(s.params) > 0 {
				// a generic struct used by a later struct at its instantiation D[int, string]: the call site
				// gombok emits for the derived instance function has to pass one instance per type parameter
				// in the order that function declares them (whatever order the fields use the parameters in)
				kind = "nested-generic"
			}
			nested = append(nested, dty{expr: s.instExpr(), kind: kind, caps: c, nested: s.name, lit: func(t *rapid.T) string {
				var parts []string
				for _, f := range sc.fields {
					if f.t.kind == "self-pointer" {
						continue
					}
					parts = append(parts, f.name+": "+substD(f.t.lit(t), sc))
				}
				return sc.instExpr() + "{" + strings.Join(parts, ", ") + "}"
			}})
		}
	}
	if p.recFlag && knownRecursiveMonoidShape(p) {
		// recorded known finding (D16): excluded by construction so that the search continues behind it
		p.recFlag = false
		p.excludedKnown = true
		// without recursive=true a named type needs a directive of its own for what gombok derived by itself
		for _, modes := range p.ex.named {
			for c, m := range modes {
				if m == "auto" {
					modes[c] = "derive"
				}
			}
		}
	}
	return p
}

// dFeatured draws a field type of the focused shape that supports the classes (ok = false: none does).
func dFeatured(t *rapid.T, focus string, ex *dextras, classes []string, base []dty) (dty, bool) {
	var leafs []dty
	for _, b := range base {
		if capsOK(b, classes) && b.kind != "typeparam" {
			leafs = append(leafs, b)
		}
	}
	if len(leafs) == 0 {
		return dty{}, false
	}
	leaf := func() dty {
		// int half of the time: the local overriding instances (EqInt, OrdInt, MonoidInt) are observable there
		if capsOK(base[0], classes) && rapid.Bool().Draw(t, "featuredInt") {
			return base[0]
		}
		return rapid.SampledFrom(leafs).Draw(t, "featuredLeaf")
	}
	wraps := []string{"direct", "direct", "slice", "option"}
	if !hasClass(classes, "Monoid") {
		wraps = append(wraps, "ptr")
	}
	wrap := rapid.SampledFrom(wraps).Draw(t, "featuredWrap")
	var cands []dty
	switch focus {
	case "inline":
		// inline structs below another type constructor have exported fields only
		cands = append(cands, dInline(t, classes, base, wrap != "direct" || hasClass(classes, "Show")))
	case "given-func":
		if ex.box {
			cands = append(cands, mkBox(leaf()))
		}
		if ex.pair {
			cands = append(cands, mkPair(rapid.SampledFrom([]string{"int", "string"}).Draw(t, "pairKey"), leaf()))
		}
		if ex.bag {
			cands = append(cands, dBagLeafs()...)
		}
	case "named":
		for _, b := range leafs {
			if strings.HasPrefix(b.kind, "named-") {
				cands = append(cands, b)
			}
		}
	case "import-given":
		for _, b := range leafs {
			for _, im := range ex.imp {
				if b.expr == im.typ && hasClass(classes, im.class) {
					cands = append(cands, b)
				}
			}
		}
	}
	var okc []dty
	for _, c := range cands {
		if capsOK(c, classes) {
			okc = append(okc, c)
		}
	}
	if len(okc) == 0 {
		return dty{}, false
	}
	e := rapid.SampledFrom(okc).Draw(t, "featured")
	switch wrap {
	case "slice":
		c := e.caps
		c.monoid = true
		return dty{expr: "[]" + e.expr, kind: "slice", caps: c, imports: e.imports, nested: e.nested, lit: func(t *rapid.T) string {
			n := rapid.IntRange(0, 2).Draw(t, "n")
			var xs []string
			for i := 0; i < n; i++ {
				xs = append(xs, e.lit(t))
			}
			return "[]" + e.expr + "{" + strings.Join(xs, ", ") + "}"
		}}, true
	case "option":
		return dty{expr: "fp.Option[" + e.expr + "]", kind: "option", caps: e.caps, imports: e.imports, nested: e.nested, lit: func(t *rapid.T) string {
			if rapid.IntRange(0, 2).Draw(t, "none") == 0 {
				return "option.None[" + e.expr + "]()"
			}
			return "option.Some[" + e.expr + "](" + e.lit(t) + ")"
		}}, true
	case "ptr":
		return dty{expr: "*" + e.expr, kind: "pointer", caps: e.caps, imports: e.imports, nested: e.nested, lit: func(t *rapid.T) string {
			if rapid.IntRange(0, 2).Draw(t, "nil") == 0 {
				return "nil"
			}
			return "ptrOf[" + e.expr + "](" + e.lit(t) + ")"
		}}, true
	}
	return e, true
}

// knownRecursiveMonoidShape: @fp.Derive(recursive=true) of Monoid over a field of a generic named
// non-struct type without a by-name instance (fp.Seq, fp.Map).
func knownRecursiveMonoidShape(p dpkg) bool {
	for _, s := range p.structs {
		mon := false
		for _, c := range s.classes {
			if c == "Monoid" {
				mon = true
			}
		}
		if !mon {
			continue
		}
		for _, f := range s.fields {
			if strings.Contains(f.t.expr, "fp.Seq[") || strings.Contains(f.t.expr, "fp.Map[") {
				return true
			}
		}
	}
	return false
}

func (p dpkg) source() string {
	var sb strings.Builder
	sb.WriteString(`package pa

import (
	"errors"
	"fmt"
	"time"
PBIMPORT
	"github.com/csgura/fp"
	"github.com/csgura/fp/clone"
	"github.com/csgura/fp/eq"
	"github.com/csgura/fp/hash"
	"github.com/csgura/fp/monoid"
	"github.com/csgura/fp/option"
	"github.com/csgura/fp/ord"
	"github.com/csgura/fp/seq"
	"github.com/csgura/fp/show"
)

var _ = errors.New
var _ = fmt.Sprint
var _ = seq.Of[int]
var _ = time.Second
var _ fp.Unit
var _ = option.None[int]
var _ = clone.Given[int]
var _ = eq.Given[int]
var _ = hash.String
var _ = monoid.String
var _ = ord.Given[int]
var _ = show.String

func ptrOf[T any](v T) *T { return &v }

`)
	if p.errVar {
		sb.WriteString("// ErrNotFound is an ordinary sentinel error of the package\nvar ErrNotFound = errors.New(\"not found\")\n\nfunc lastError() error { return ErrNotFound }\n\n")
	}
	uses := map[string]bool{}
	for _, s := range p.structs {
		for _, c := range s.classes {
			uses[c] = true
		}
	}
	bagUsed := false
	for _, s := range p.structs {
		for _, f := range s.fields {
			if strings.Contains(f.t.expr, "Bag[") {
				bagUsed = true
			}
		}
	}
	if bagUsed {
		uses["Ord"] = true // EqBag needs an fp.Ord of the item type
	}
	if p.intEq10 && uses["Eq"] {
		sb.WriteString("// local instance: overrides eq.Given[int] for fields of type int\nvar EqInt = eq.New(func(a, b int) bool { return a%10 == b%10 })\n\n")
	}
	if p.intOrdRev && uses["Ord"] {
		sb.WriteString("// local instance: int fields are ordered descending\nvar OrdInt = ord.Given[int]().Reversed()\n\n")
	}
	if uses["Monoid"] {
		if p.intProd {
			sb.WriteString("var MonoidInt = monoid.Product[int]()\n\n")
		} else {
			sb.WriteString("var MonoidInt = monoid.Sum[int]()\n\n")
		}
	}
	sb.WriteString(p.sourceExtras(uses))
	for _, s := range p.structs {
		if s.plain {
			fmt.Fprintf(&sb, "// %s is a plain struct without @fp.Value\ntype %s%s struct {\n", s.name, s.name, s.declParams())
		} else if s.labelled {
			fmt.Fprintf(&sb, "// @fp.Value\n// @fp.GenLabelled\ntype %s%s struct {\n", s.name, s.declParams())
		} else {
			fmt.Fprintf(&sb, "// @fp.Value\ntype %s%s struct {\n", s.name, s.declParams())
		}
		for _, f := range s.fields {
			e := f.t.expr
			for _, prm := range s.params {
				e = strings.ReplaceAll(e, "«"+prm+"»", prm)
			}
			fmt.Fprintf(&sb, "\t%s %s\n", f.name, e)
		}
		sb.WriteString("}\n\n")
		last := s.name == p.structs[len(p.structs)-1].name
		for _, c := range s.classes {
			if p.recFlag {
				if last {
					fmt.Fprintf(&sb, "// @fp.Derive(recursive=true)\nvar _ %s.Derives[fp.%s[%s]]\n\n", dClassPkg[c], c, s.anyExpr())
				}
				continue
			}
			fmt.Fprintf(&sb, "// @fp.Derive\nvar _ %s.Derives[fp.%s[%s]]\n\n", dClassPkg[c], c, s.anyExpr())
		}
	}
	pbImport := ""
	if p.sourcePb() != "" {
		pbImport = "\n\t\"scratch/pb\"\n"
	}
	return strings.Replace(sb.String(), "PBIMPORT", pbImport, 1)
}

func (p dpkg) ovEq() bool {
	return p.intEq10
}

func (p dpkg) cases() string {
	var sb strings.Builder
	sb.WriteString(`package pa

import (
	"math"
	"reflect"
	"time"

	"github.com/csgura/fp"
	"github.com/csgura/fp/clone"
	"github.com/csgura/fp/eq"
	"github.com/csgura/fp/hash"
	"github.com/csgura/fp/monoid"
	"github.com/csgura/fp/option"
	"github.com/csgura/fp/ord"
	"github.com/csgura/fp/show"
)

var _ = time.Second
var _ fp.Unit
var _ = option.None[int]

var negZero = math.Copysign(0, -1)

func typeOf[T any]() reflect.Type { return reflect.TypeOf((*T)(nil)).Elem() }

// instances handed to generic derived functions for their type parameters: for int they have the
// same semantics as the package's local overriding instances, so that one reference serves both
var dRegistry = map[reflect.Type]any{
	typeOf[fp.Eq[int]]():          REG_EQ_INT,
	typeOf[fp.Eq[string]]():       eq.String,
	typeOf[fp.Ord[int]]():         REG_ORD_INT,
	typeOf[fp.Ord[string]]():      ord.Given[string](),
	typeOf[fp.Hashable[int]]():    hash.Number[int](),
	typeOf[fp.Hashable[string]](): hash.String,
	typeOf[fp.Monoid[int]]():      REG_MONOID_INT,
	typeOf[fp.Monoid[string]]():   monoid.String,
	typeOf[fp.Clone[int]]():       clone.Given[int](),
	typeOf[fp.Clone[string]]():    clone.Given[string](),
	typeOf[fp.Show[int]]():        show.Int[int](),
	typeOf[fp.Show[string]]():     show.String,
}

func mustInst(name string, fn any) (any, int) {
	i, n, err := inst(fn, dRegistry)
	if err != "" {
		dFailed++
		println("LAWFAIL\t" + name + "\tarity\t" + err)
		return nil, n
	}
	return i, n
}

`)
	regEq, regOrd, regMon := "eq.Given[int]()", "ord.Given[int]()", "monoid.Sum[int]()"
	if p.intEq10 {
		regEq = "eq.New(func(a, b int) bool { return a%10 == b%10 })"
	}
	if p.intOrdRev {
		regOrd = "ord.Given[int]().Reversed()"
	}
	if p.intProd {
		regMon = "monoid.Product[int]()"
	}
	out := strings.NewReplacer("REG_EQ_INT", regEq, "REG_ORD_INT", regOrd, "REG_MONOID_INT", regMon).Replace(sb.String())
	sb.Reset()
	sb.WriteString(out)
	sem := p.sem()
	var semKeys []string
	for k := range sem {
		semKeys = append(semKeys, k)
	}
	sort.Strings(semKeys)
	var semLit []string
	for _, k := range semKeys {
		semLit = append(semLit, fmt.Sprintf("%q: %q", k, sem[k]))
	}
	fmt.Fprintf(&sb, "var dOverrides = dOverride{IntEqMod10: %v, IntOrdReversed: %v, IntProduct: %v, Sem: map[string]string{%s}}\n\n", p.intEq10, p.intOrdRev, p.intProd, strings.Join(semLit, ", "))
	sb.WriteString("var dCases = func() []dCase {\n\tvar cs []dCase\n")
	for si, s := range p.structs {
		if p.recFlag && si != len(p.structs)-1 {
			continue
		}
		fmt.Fprintf(&sb, "\t{\n\t\tvalues := []any{\n")
		for _, lits := range s.values {
			fmt.Fprintf(&sb, "\t\t\t%s{", s.instExpr())
			for i, f := range s.fields {
				fmt.Fprintf(&sb, "%s: %s, ", f.name, substD(lits[i], s))
			}
			sb.WriteString("},\n")
		}
		sb.WriteString("\t\t}\n\t\tapplied := []string{")
		for _, f := range s.fields {
			fmt.Fprintf(&sb, "%q, ", f.name)
		}
		sb.WriteString("}\n")
		for _, c := range s.classes {
			fn := c + s.name
			if len(s.params) > 0 {
				var ps []string
				for _, prm := range s.params {
					ps = append(ps, paramInst(prm))
				}
				fn += "[" + strings.Join(ps, ", ") + "]"
			}
			fmt.Fprintf(&sb, "\t\tif in, n := mustInst(%q, %s); in != nil {\n\t\t\tcs = append(cs, dCase{Struct: %q, Class: %q, Inst: in, NumIn: n, MaxIn: %d, Values: values, Applied: applied})\n\t\t}\n", s.name, fn, s.name, c, len(s.params))
		}
		sb.WriteString("\t}\n")
	}
	sb.WriteString("\treturn cs\n}()\n")
	return sb.String()
}

func (p dpkg) describe() string {
	var sb strings.Builder
	fmt.Fprintf(&sb, "overrides(EqInt mod10=%v, OrdInt reversed=%v, MonoidInt product=%v) recursive=true on last struct only: %v; package-level error var: %v\n", p.intEq10, p.intOrdRev, p.intProd, p.recFlag, p.errVar)
	if ex := p.ex; ex != nil {
		var names []string
		for _, n := range dNamedTypes {
			if m, ok := ex.named[n]; ok {
				var ms []string
				for _, c := range dClasses {
					if m[c] != "" {
						ms = append(ms, c+"="+m[c])
					}
				}
				names = append(names, n+"("+strings.Join(ms, ",")+")")
			}
		}
		var imps []string
		for _, im := range ex.imp {
			imps = append(imps, fmt.Sprintf("pb.%s=%s[%s]:%s local=%q", im.name, im.class, im.typ, im.tag, im.local))
		}
		fmt.Fprintf(&sb, "extras: inline=%v Box=%v Pair=%v Bag=%v named=%v handFunc=%v MonoidMyInt=%s imported=%v\n", ex.inline, ex.box, ex.pair, ex.bag, names, ex.handFunc, ex.myIntMon, imps)
	}
	for _, s := range p.structs {
		fmt.Fprintf(&sb, "%s%s plain=%v labelled=%v derive%v {", s.name, s.declParams(), s.plain, s.labelled, s.classes)
		for _, f := range s.fields {
			fmt.Fprintf(&sb, "%s %s; ", f.name, f.t.expr)
		}
		fmt.Fprintf(&sb, "} values=%v\n", s.values)
	}
	return sb.String()
}

// shapeLabels: which of the extra shapes the struct has
func (s dstruct) shapeLabels() []string {
	var ls []string
	if s.wide {
		ls = append(ls, "shape:wide")
	}
	if s.labelled {
		ls = append(ls, "shape:labelled")
	}
	seen := map[string]bool{}
	for _, f := range s.fields {
		for frag, l := range map[string]string{"struct{": "shape:inline-struct", "Box[": "shape:given-func-Box", "Pair[": "shape:given-func-Pair", "Bag[": "shape:given-func-Bag",
			"MyInt": "shape:named-MyInt", "MyStr": "shape:named-MyStr", "Names": "shape:named-Names", "Index": "shape:named-Index"} {
			if strings.Contains(f.t.expr, frag) && !seen[l] {
				seen[l] = true
				ls = append(ls, l)
			}
		}
	}
	sort.Strings(ls)
	return ls
}

// modeLabels: how the instances of the used named types / imported instances are provided
func (p dpkg) modeLabels() []string {
	var ls []string
	if p.ex == nil {
		return nil
	}
	used := func(name, class string) bool {
		for _, s := range p.structs {
			if !hasClass(s.classes, class) {
				continue
			}
			for _, f := range s.fields {
				if strings.Contains(f.t.expr, name) {
					return true
				}
			}
		}
		return false
	}
	for _, n := range dNamedTypes {
		for _, c := range dClasses {
			if m := p.ex.named[n][c]; m != "" && used(n, c) {
				ls = append(ls, "named-mode:"+m)
			}
		}
	}
	for _, im := range p.ex.imp {
		if used(im.typ, im.class) {
			l := "imported:" + im.class + "[" + im.typ + "]"
			if im.local != "" {
				l += "+local"
			}
			ls = append(ls, l)
		}
	}
	sort.Strings(ls)
	return ls
}

// ExcludeDerive lists typeclasses removed from the generator (recorded known findings).
var ExcludeDerive = map[string]bool{}

func init() {
	if v := os.Getenv("VERIF_C08_EXCLUDE_CLASSES"); v != "" {
		for _, n := range strings.Split(v, ",") {
			ExcludeDerive[n] = true
		}
	}
}

var dumpMark = func(string) {}

func runDerivePackage(p dpkg) (fails []outcome, stage string) {
	m, err := scratch.NewModule()
	if err != nil {
		return []outcome{{"infra", err.Error()}}, "infra"
	}
	defer m.Remove()
	_ = m.WriteFile("pa/types.go", p.source())
	if pb := p.sourcePb(); pb != "" {
		_ = m.WriteFile("pb/inst.go", pb)
	}
	if d := os.Getenv("VERIF_C08_DUMP"); d != "" {
		// debugging aid: keep the sources and the duration of each stage of every package
		t0 := time.Now()
		marks := []string{}
		mark := func(stage string) { marks = append(marks, fmt.Sprintf("%s=%.1fs", stage, time.Since(t0).Seconds())) }
		defer func() {
			mark("end:" + stage)
			dir := fmt.Sprintf("%s/%d-%s", d, os.Getpid(), strings.TrimPrefix(m.Dir[strings.LastIndex(m.Dir, "/")+1:], "m"))
			_ = os.MkdirAll(dir, 0o755)
			_ = os.WriteFile(dir+"/types.go", []byte(p.source()), 0o644)
			_ = os.WriteFile(dir+"/inst_pb.go", []byte(p.sourcePb()), 0o644)
			_ = os.WriteFile(dir+"/derive_generated.go", []byte(m.ReadFile("pa/pa_derive_generated.go")), 0o644)
			_ = os.WriteFile(dir+"/cases.go", []byte(p.cases()), 0o644)
			_ = os.WriteFile(dir+"/info.txt", []byte(strings.Join(marks, " ")+"\n"+fmt.Sprint(fails)+"\n"+p.describe()), 0o644)
		}()
		dumpMark = mark
		defer func() { dumpMark = func(string) {} }()
	}
	g := m.RunGombok("pa", "pa")
	dumpMark("gombok")
	if g.TimedOut {
		return []outcome{{"gombok|timeout", "gombok did not finish within 120 s"}}, "gombok"
	}
	if scratch.ToolchainTrouble(g.Out) {
		return []outcome{{"infra|toolchain-trouble", clip(g.Out, 600)}}, "infra"
	}
	if g.ExitCode != 0 || strings.Contains(g.Out, "panic:") {
		first := ""
		for _, l := range strings.Split(g.Out, "\n") {
			if strings.HasPrefix(l, "panic:") {
				first = l
				break
			}
		}
		if first == "" {
			first = scratch.FirstError(g.Out)
		}
		if strings.Contains(first, "can't summon") {
			// gombok's clean, declared rejection of a shape it does not support: outside the property
			return []outcome{{"rejected", first}}, "rejected"
		}
		return []outcome{{"gombok-failed|" + scratch.ErrorClass(first), "gombok exit " + fmt.Sprint(g.ExitCode) + ": " + clip(g.Out, 1500)}}, "gombok"
	}
	// The package is compiled once, together with the law test (`go test`). Only if that does not build, the
	// package is built on its own to tell generated code that does not compile from a broken law test.
	buildFailure := func() []outcome {
		r := m.Go(180*time.Second, "build", "./pa")
		if r.ExitCode == 0 {
			return nil
		}
		if scratch.ToolchainTrouble(r.Out) {
			return []outcome{{"infra|toolchain-trouble", clip(r.Out, 600)}}
		}
		fe := scratch.FirstError(r.Out)
		return []outcome{{"compile|" + scratch.ErrorClass(stripPos(fe)), "generated code does not compile: " + clip(r.Out, 1500) + "\n--- derive file:\n" + clip(m.ReadFile("pa/pa_derive_generated.go"), 2500)}}
	}
	law := strings.Replace(scratch.DeriveLib, "package PKGNAME", "package pa", 1)
	_ = m.WriteFile("pa/zz_derive_test.go", law)
	_ = m.WriteFile("pa/zz_dcases_test.go", p.cases())
	r, _, died := m.GoTestLaws(300 * time.Second)
	dumpMark("test")
	if r.TimedOut {
		return []outcome{{"law|timeout", "law test did not finish"}}, "law"
	}
	if died {
		return []outcome{{"infra|law-test-died", fmt.Sprintf("go test ended with exit code %d three times without a failing law, a panic or a build error: %s", r.ExitCode, clip(r.Out, 800))}}, "infra"
	}
	seen := map[string]bool{}
	for _, l := range strings.Split(r.Out, "\n") {
		if strings.HasPrefix(l, "LAWFAIL\t") {
			parts := strings.SplitN(l, "\t", 4)
			if len(parts) == 4 && !seen[parts[2]] {
				seen[parts[2]] = true
				fails = append(fails, outcome{"law|" + parts[2], parts[1] + ": " + parts[3]})
			}
		}
	}
	if len(fails) == 0 && r.ExitCode != 0 {
		if strings.Contains(r.Out, "[build failed]") || strings.Contains(r.Out, "[setup failed]") {
			if bf := buildFailure(); bf != nil {
				if strings.HasPrefix(bf[0].sig, "infra") {
					return bf, "infra"
				}
				return bf, "compile"
			}
			return []outcome{{"infra|law-test-does-not-compile", clip(r.Out, 2500) + "\n--- derive file:\n" + clip(m.ReadFile("pa/pa_derive_generated.go"), 2500)}}, "infra"
		}
		return []outcome{{"law|crash", clip(r.Out, 2000)}}, "law"
	}
	if len(fails) == 0 && !strings.Contains(r.Out, "LAWS-OK") {
		return []outcome{{"infra|law-test-did-not-run", clip(r.Out, 1500)}}, "infra"
	}
	return fails, "law"
}

const ruleC08 = "package spec drawn from a grammar: 1-3 @fp.Value structs (0-2 type parameters, optional recursion through a pointer, nesting of earlier derived structs, generic ones at the instantiation D[int, string]; optionally @fp.GenLabelled; optionally plain structs), 1-7 fields - or 22-25, beyond the tuple limit - over the kinds each typeclass package supports (ints, float64, string, bool, []byte, time.Time, Option, fp.Seq, slice, pointer, Go map, fp.Map, Tuple2, nested struct, type parameter, unnamed struct types, hand-written generic types Box[T] / Pair[K, V] / Bag[T] whose instances are hand-written generic functions, named non-struct types MyInt / MyStr / Names / Index with no, a hand-written or a derived instance, basic types whose only instance a second package pb declares and @fp.ImportGiven imports), 1-3 @fp.Derive directives per struct out of Eq/Ord/Hashable/Monoid/Clone/Show, optional local overriding instances (EqInt = equality mod 10, OrdInt = descending, MonoidInt = Sum or Product; hand-written instances are made observably different from the structural default); 5 values per struct (random, one field changed, a suffix changed, random, copy). Pipeline: gombok from the tree under test -> go test of the package with a reflective law test (reference semantics: conjunction / lexicographic / field-wise / deep copy, with the instance the lookup rules select for each field type); generated code that does not compile is told from a broken law test by building the package alone. Non-trivial iff a struct is nested, generic, recursive or uses one of the extra shapes; distinct by rendered spec"

// DrawDeriveSource draws a package from the C08 grammar (source text of pa/types.go) for C13.
func DrawDeriveSource(rt *rapid.T) (src string, labels []string) {
	p := drawDPkgOpt(rt, ExcludeDerive, "", true)
	seen := map[string]bool{}
	add := func(l string) {
		if !seen[l] {
			seen[l] = true
			labels = append(labels, l)
		}
	}
	add(fmt.Sprintf("structs:%d", len(p.structs)))
	if p.recFlag {
		add("recursive=true")
	}
	for _, s := range p.structs {
		if len(s.params) > 0 {
			add("generic")
		}
		for _, c := range s.classes {
			add("class:" + c)
		}
		for _, l := range s.shapeLabels() {
			add(l)
		}
	}
	return p.source(), labels
}

// DeriveCheck registers the sub-check that runs generated packages with @fp.Derive through gombok.
func DeriveCheck(t *testing.T, name string, casesPerProcess int, focus string) {
	kit.Check(t, name, ruleC08, kit.Opt{Abs: casesPerProcess, HangAfter: 20 * time.Minute}, func(rt *rapid.T, rec *kit.Rec) {
		p := drawDPkg(rt, ExcludeDerive, focus)
		if p.excludedKnown {
			rec.Excluded()
		}
		if p.recFlag {
			rec.Label("recursive=true")
		}
		nt := p.recFlag
		for _, s := range p.structs {
			if len(s.params) > 0 {
				nt = true
				rec.Label("generic")
			}
			if s.recursive {
				nt = true
				rec.Label("recursive")
			}
			for _, c := range s.classes {
				rec.Label("class:" + c)
			}
			for _, f := range s.fields {
				rec.Label("kind:" + f.t.kind)
				if f.t.nested != "" {
					nt = true
				}
			}
			for _, l := range s.shapeLabels() {
				nt = true
				rec.Label(l)
			}
		}
		for _, l := range p.modeLabels() {
			rec.Label(l)
		}
		rec.Case(nt, p.describe())
		fails, stage := runDerivePackage(p)
		rec.Label("stage:" + stage)
		if stage == "rejected" {
			rec.Label("rejected:" + clip(fails[0].msg, 80))
			return
		}
		for _, s := range p.structs {
			if s.plain {
				rec.Label("plain-struct")
			}
		}
		for _, f := range fails {
			if strings.HasPrefix(f.sig, "infra") {
				rec.Failf(rt, "HARNESS|"+f.sig, "harness problem (not a property violation): %s\nspec:\n%s", f.msg, p.describe())
			}
		}
		for _, f := range fails {
			rec.Failf(rt, "C08|"+f.sig, "%s\nspec:\n%s", f.msg, p.describe())
		}
	})
}

// KnownD16Check exercises the recorded known finding D16 with its fixed minimal input, so that the
// check prints KNOWN-FINDING while the defect exists and reports nothing once it is repaired.
func KnownD16Check(t *testing.T) {
	kit.Plain(t, "derive/known-shape/monoid-recursive-named-generic", "fixed input: @fp.Derive(recursive=true) of fp.Monoid for a struct nesting a struct with an fp.Seq[int] field (2 fixed packages: fp.Seq and fp.Map)", func(t *testing.T, rec *kit.Rec) {
		str := dBasic(true)[4]
		for _, ft := range []dty{
			{expr: "fp.Seq[int]", kind: "fp.Seq", caps: all, lit: func(*rapid.T) string { return "fp.Seq[int]{1}" }},
			{expr: "fp.Map[string, int]", kind: "fp.Map", caps: all, lit: func(*rapid.T) string { return "fp.Map[string, int]{}" }},
		} {
			inner := dstruct{name: "D1", classes: []string{"Monoid"}, fields: []dfield{{name: "name", t: ft}, {name: "count", t: str}},
				values: [][]string{{ft.lit(nil), `"mka"`}, {ft.lit(nil), `"mkb"`}}}
			outer := dstruct{name: "D2", classes: []string{"Monoid"}, fields: []dfield{{name: "name", t: dty{expr: "D1", kind: "nested-struct", caps: all, nested: "D1"}}, {name: "count", t: str}},
				values: [][]string{{"D1{name: " + ft.lit(nil) + `, count: "mka"}`, `"mkz"`}, {"D1{name: " + ft.lit(nil) + `, count: ""}`, `"mkb"`}}}
			p := dpkg{structs: []dstruct{inner, outer}, recFlag: true, monoidInt: true}
			rec.Case(true, p.describe())
			fails, _ := runDerivePackage(p)
			for _, f := range fails {
				if strings.HasPrefix(f.sig, "infra") {
					rec.PlainFail(t, "HARNESS|"+f.sig, "%s", f.msg)
				}
				cls := "law"
				if strings.HasPrefix(f.sig, "compile") {
					cls = "compile"
				} else if strings.HasPrefix(f.sig, "gombok") {
					cls = "gombok"
				}
				rec.PlainFail(t, "C08|known-shape|monoid-recursive-named-generic|"+cls, "%s\nspec:\n%s", f.msg, p.describe())
			}
		}
	})
}

// KnownCloneNamedCheck exercises the recorded known finding D17 with its fixed minimal input: the derived Clone
// of a struct with a field of a NAMED slice / map type that has no Clone instance of its own resolves that
// field to the catch-all clone.Given (identity), so the clone shares the slice's array and the map. The shape
// is switched off in the random grammar (ExcludeShape "clone-named-container", counted as excluded).
func KnownCloneNamedCheck(t *testing.T) {
	kit.Plain(t, "derive/known-shape/clone-named-container", "fixed input: type Names []string; type Index map[string]int; @fp.Value struct{names Names; index Index}; @fp.Derive clone.Derives[fp.Clone[T]]; the clone is written through and the original inspected", func(t *testing.T, rec *kit.Rec) {
		rec.Case(true, "T{names Names; index Index}")
		m, err := scratch.NewModule()
		if err != nil {
			rec.PlainFail(t, "HARNESS|infra", "%v", err)
		}
		defer m.Remove()
		_ = m.WriteFile("pa/types.go", `package pa

import (
	"github.com/csgura/fp"
	"github.com/csgura/fp/clone"
)

type Names []string
type Index map[string]int

// @fp.Value
type T struct {
	names Names
	index Index
}

// @fp.Derive
var _ clone.Derives[fp.Clone[T]]
`)
		_ = m.WriteFile("pa/zz_known_test.go", `package pa

import "testing"

func TestKnownShape(t *testing.T) {
	a := T{names: Names{"x", "y"}, index: Index{"k": 1}}
	b := CloneT().Clone(a)
	b.names[0] = "changed"
	b.index["k"] = 2
	if a.names[0] != "x" {
		t.Errorf("SHARED-STORAGE names: writing to the clone changed the original to %v", a.names)
	}
	if a.index["k"] != 1 {
		t.Errorf("SHARED-STORAGE index: writing to the clone changed the original to %v", a.index)
	}
}
`)
		g := m.RunGombok("pa", "pa")
		if scratch.ToolchainTrouble(g.Out) {
			rec.PlainFail(t, "HARNESS|infra|toolchain-trouble", "%s", clip(g.Out, 400))
		}
		if g.ExitCode != 0 || strings.Contains(g.Out, "panic:") {
			rec.PlainFail(t, "C08|known-shape|clone-named-container|gombok", "gombok failed: %s", clip(g.Out, 800))
		}
		r := m.Go(300*time.Second, "test", "-count=1", "-vet=off", "./pa")
		switch {
		case scratch.ToolchainTrouble(r.Out) || r.TimedOut:
			rec.PlainFail(t, "HARNESS|infra|toolchain-trouble", "%s", clip(r.Out, 400))
		case strings.Contains(r.Out, "SHARED-STORAGE"):
			rec.PlainFail(t, "C08|known-shape|clone-named-container|law", "%s\n--- derive file:\n%s", clip(r.Out, 800), clip(m.ReadFile("pa/pa_derive_generated.go"), 800))
		case r.ExitCode != 0 && !strings.Contains(r.Out, ".go:") && !strings.Contains(r.Out, "--- FAIL") && !strings.Contains(r.Out, "panic:"):
			// go test died without saying why (killed from outside): nothing decided
			rec.PlainFail(t, "HARNESS|infra|law-test-died", "exit code %d: %s", r.ExitCode, clip(r.Out, 400))
		case r.ExitCode != 0:
			rec.PlainFail(t, "C08|known-shape|clone-named-container|compile", "%s", clip(r.Out, 1200))
		}
	})
}

// ---- two-package instance precedence --------------------------------------------------------------

// PrecedenceCheck: a type declared in package pa, derived in working package pw; instances for the
// field type pa.MyInt may exist in pw (working package), in pa (the type's own package) or nowhere
// (derive package fallback). They are made observably different; the reference uses the instance the
// documented rule selects: working package, then the type's package, then the derive package.
func PrecedenceCheck(t *testing.T, name string, casesPerProcess int) {
	kit.Check(t, name, "configuration drawn: typeclass (Eq/Ord/Monoid), which of {working package, type's package} declare an instance for the field type pa.MyInt, how the working-package instance is named (EqPaMyInt / EqMyInt), field values; two scratch packages pa (type, @fp.Value) and pw (directive); oracle: the derived instance for pa.T behaves field-wise with the instance the documented precedence selects; non-trivial iff both packages declare an instance; distinct by configuration+values", kit.Opt{Abs: casesPerProcess, HangAfter: 20 * time.Minute}, func(rt *rapid.T, rec *kit.Rec) {
		class := rapid.SampledFrom([]string{"Eq", "Ord", "Monoid"}).Draw(rt, "class")
		pwInst := rapid.Bool().Draw(rt, "instanceInWorkingPkg")
		paInst := rapid.Bool().Draw(rt, "instanceInTypePkg")
		if class == "Monoid" && !pwInst && !paInst {
			paInst = true // no fallback instance exists for a numeric Monoid: gombok rejects ("can't summon")
		}
		prefixed := rapid.Bool().Draw(rt, "prefixedName")
		vals := make([][3]string, 4)
		for i := range vals {
			n := rapid.IntRange(0, 12).Draw(rt, "name")
			c := rapid.IntRange(0, 3).Draw(rt, "count")
			k := rapid.IntRange(0, 2).Draw(rt, "ntags")
			tags := []string{}
			for j := 0; j < k; j++ {
				tags = append(tags, strconv.Itoa(rapid.IntRange(0, 12).Draw(rt, "tag")))
			}
			vals[i] = [3]string{strconv.Itoa(n), strconv.Itoa(c), "[]pa.MyInt{" + strings.Join(tags, ", ") + "}"}
		}
		desc := fmt.Sprintf("class=%s pw=%v(prefixed=%v) pa=%v values=%v", class, pwInst, prefixed, paInst, vals)
		rec.Case(pwInst && paInst, desc)
		rec.Label("class:" + class)
		pkg := dClassPkg[class]
		// level semantics
		lvl := "none"
		if pwInst {
			lvl = "pw"
		} else if paInst {
			lvl = "pa"
		}
		instBody := func(level string) string {
			switch class {
			case "Eq":
				m := map[string]string{"pw": "2", "pa": "3"}[level]
				return "eq.New(func(a, b MyIntT) bool { return a%" + m + " == b%" + m + " })"
			case "Ord":
				if level == "pw" {
					return "ord.New(eq.Given[MyIntT](), func(a, b MyIntT) bool { return a > b })"
				}
				return "ord.New(eq.Given[MyIntT](), func(a, b MyIntT) bool { return a%5 < b%5 || (a%5 == b%5 && a < b) })"
			default:
				if level == "pw" {
					return "monoid.Product[MyIntT]()"
				}
				return "monoid.Sum[MyIntT]()"
			}
		}
		m, err := scratch.NewModule()
		if err != nil {
			rec.Failf(rt, "HARNESS|infra", "%v", err)
		}
		defer m.Remove()
		pa := "package pa\n\nimport (\n\t\"github.com/csgura/fp\"\n\t\"github.com/csgura/fp/eq\"\n\t\"github.com/csgura/fp/monoid\"\n\t\"github.com/csgura/fp/ord\"\n)\n\nvar _ fp.Unit\nvar _ = eq.Given[int]\nvar _ = monoid.String\nvar _ = ord.Given[int]\n\ntype MyInt int\n\n"
		if paInst {
			pa += "// instance in the type's own package\nvar " + class + "MyInt = " + strings.ReplaceAll(instBody("pa"), "MyIntT", "MyInt") + "\n\n"
		}
		pa += "// @fp.Value\ntype T struct {\n\tname MyInt\n\tcount int\n\ttags []MyInt\n}\n"
		_ = m.WriteFile("pa/types.go", pa)
		pw := "package pw\n\nimport (\n\t\"scratch/pa\"\n\n\t\"github.com/csgura/fp\"\n\t\"github.com/csgura/fp/eq\"\n\t\"github.com/csgura/fp/monoid\"\n\t\"github.com/csgura/fp/ord\"\n)\n\nvar _ fp.Unit\nvar _ = eq.Given[int]\nvar _ = monoid.String\nvar _ = ord.Given[int]\nvar _ pa.MyInt\n\nvar MonoidInt = monoid.Sum[int]()\n\n"
		if pwInst {
			n := class + "MyInt"
			if prefixed {
				n = class + "PaMyInt"
			}
			pw += "// instance in the working package\nvar " + n + " = " + strings.ReplaceAll(instBody("pw"), "MyIntT", "pa.MyInt") + "\n\n"
		}
		pw += "// @fp.Derive\nvar _ " + pkg + ".Derives[fp." + class + "[pa.T]]\n"
		_ = m.WriteFile("pw/derive.go", pw)
		for _, d := range []string{"pa", "pw"} {
			g := m.RunGombok(d, d)
			if scratch.ToolchainTrouble(g.Out) {
				rec.Failf(rt, "HARNESS|infra|toolchain-trouble", "%s", clip(g.Out, 600))
			}
			if g.ExitCode != 0 || strings.Contains(g.Out, "panic:") {
				if strings.Contains(g.Out, "can't summon") {
					rec.Label("rejected")
					return
				}
				rec.Failf(rt, "C08|precedence|gombok-failed|"+class, "gombok failed in %s: %s\n%s", d, clip(g.Out, 1200), desc)
			}
		}
		if r := m.Go(180*time.Second, "build", "./..."); r.ExitCode != 0 {
			if scratch.ToolchainTrouble(r.Out) {
				rec.Failf(rt, "HARNESS|infra|resource-exhaustion", "%s", clip(r.Out, 400))
			}
			rec.Failf(rt, "C08|precedence|compile|"+class, "generated code does not compile: %s\n%s\n--- derive file:\n%s", clip(r.Out, 1200), desc, clip(m.ReadFile("pw/pw_derive_generated.go"), 1500))
		}
		// emitted test in pw: reference with the selected level
		var tb strings.Builder
		tb.WriteString("package pw\n\nimport (\n\t\"fmt\"\n\t\"testing\"\n\n\t\"scratch/pa\"\n)\n\n")
		fmt.Fprintf(&tb, "const level = %q\nconst class = %q\n\n", lvl, class)
		tb.WriteString(`func eqMy(a, b pa.MyInt) bool {
	switch level {
	case "pw":
		return a%2 == b%2
	case "pa":
		return a%3 == b%3
	}
	return a == b
}

func lessMy(a, b pa.MyInt) bool {
	switch level {
	case "pw":
		return a > b
	case "pa":
		return a%5 < b%5 || (a%5 == b%5 && a < b)
	}
	return a < b
}

func combMy(a, b pa.MyInt) pa.MyInt {
	if level == "pw" {
		return a * b
	}
	return a + b
}

func refEq(x, y pa.T) bool {
	if !eqMy(x.Name(), y.Name()) || x.Count() != y.Count() || len(x.Tags()) != len(y.Tags()) {
		return false
	}
	for i := range x.Tags() {
		if !eqMy(x.Tags()[i], y.Tags()[i]) {
			return false
		}
	}
	return true
}

func refCmp(x, y pa.T) int {
	c := func(a, b pa.MyInt) int {
		if lessMy(a, b) {
			return -1
		}
		if lessMy(b, a) {
			return 1
		}
		return 0
	}
	if r := c(x.Name(), y.Name()); r != 0 {
		return r
	}
	if x.Count() != y.Count() {
		if x.Count() < y.Count() {
			return -1
		}
		return 1
	}
	n := len(x.Tags())
	if len(y.Tags()) < n {
		n = len(y.Tags())
	}
	for i := 0; i < n; i++ {
		if r := c(x.Tags()[i], y.Tags()[i]); r != 0 {
			return r
		}
	}
	if len(x.Tags()) != len(y.Tags()) {
		if len(x.Tags()) < len(y.Tags()) {
			return -1
		}
		return 1
	}
	return 0
}

`)
		tb.WriteString("var values = []pa.T{\n")
		for _, v := range vals {
			fmt.Fprintf(&tb, "\tpa.TBuilder{}.Name(%s).Count(%s).Tags(%s).Build(),\n", v[0], v[1], v[2])
		}
		tb.WriteString("}\n\nfunc TestPrecedence(t *testing.T) {\n\tfailed := false\n\tfor _, x := range values {\n\t\tfor _, y := range values {\n")
		switch class {
		case "Eq":
			tb.WriteString("\t\t\tif got, want := EqPaT().Eqv(x, y), refEq(x, y); got != want {\n\t\t\t\tfmt.Printf(\"LAWFAIL\\tT\\tEq|precedence\\tEqv(%v, %v) = %v, the instance selected by the documented precedence (%s) gives %v\\n\", x, y, got, level, want)\n\t\t\t\tfailed = true\n\t\t\t}\n")
		case "Ord":
			tb.WriteString("\t\t\tif got, want := OrdPaT().Less(x, y), refCmp(x, y) < 0; got != want {\n\t\t\t\tfmt.Printf(\"LAWFAIL\\tT\\tOrd|precedence\\tLess(%v, %v) = %v, the instance selected by the documented precedence (%s) gives %v\\n\", x, y, got, level, want)\n\t\t\t\tfailed = true\n\t\t\t}\n")
		default:
			tb.WriteString("\t\t\tgot := MonoidPaT().Combine(x, y)\n\t\t\tok := got.Name() == combMy(x.Name(), y.Name()) && got.Count() == x.Count()+y.Count() && len(got.Tags()) == len(x.Tags())+len(y.Tags())\n\t\t\tif !ok {\n\t\t\t\tfmt.Printf(\"LAWFAIL\\tT\\tMonoid|precedence\\tCombine(%v, %v) = %v is not field-wise with the instance selected by the documented precedence (%s)\\n\", x, y, got, level)\n\t\t\t\tfailed = true\n\t\t\t}\n")
		}
		tb.WriteString("\t\t}\n\t}\n\tif failed {\n\t\tt.Fatal(\"law failures\")\n\t}\n\tfmt.Println(\"LAWS-OK\")\n}\n")
		_ = m.WriteFile("pw/zz_prec_test.go", tb.String())
		r := m.Go(300*time.Second, "test", "-count=1", "-vet=off", "-v", "./pw")
		if strings.Contains(r.Out, "[build failed]") {
			rec.Failf(rt, "HARNESS|infra|law-test-does-not-compile", "%s\n%s", clip(r.Out, 2000), desc)
		}
		for _, l := range strings.Split(r.Out, "\n") {
			if strings.HasPrefix(l, "LAWFAIL\t") {
				parts := strings.SplitN(l, "\t", 4)
				rec.Failf(rt, "C08|precedence|"+parts[2], "%s\n%s\n--- derive file:\n%s", parts[3], desc, clip(m.ReadFile("pw/pw_derive_generated.go"), 1500))
			}
		}
		if !strings.Contains(r.Out, "LAWS-OK") {
			rec.Failf(rt, "HARNESS|infra|law-test-did-not-run", "%s", clip(r.Out, 1500))
		}
	})
}
