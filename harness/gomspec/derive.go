package gomspec

import (
	"fmt"
	"os"
	"sort"
	"strconv"
	"strings"
	"testing"
	"time"

	"pgregory.net/rapid"

	"verifharness/kit"
	"verifharness/scratch"
)

// ---- grammar of derivable types ------------------------------------------------------------

type caps struct{ eq, ord, hash, monoid, clone, show bool }

func (c caps) has(class string) bool {
	switch class {
	case "Eq":
		return c.eq
	case "Ord":
		return c.ord
	case "Hashable":
		return c.hash
	case "Monoid":
		return c.monoid
	case "Clone":
		return c.clone
	case "Show":
		return c.show
	}
	return false
}

func (c caps) and(o caps) caps {
	return caps{c.eq && o.eq, c.ord && o.ord, c.hash && o.hash, c.monoid && o.monoid, c.clone && o.clone, c.show && o.show}
}

type dty struct {
	expr    string
	kind    string
	caps    caps
	lit     func(t *rapid.T) string
	imports []string
	nested  string // name of a nested derived struct, if any
	param   string
}

var all = caps{true, true, true, true, true, true}

func dBasic(monoidInt bool) []dty {
	return []dty{
		{expr: "int", kind: "int", caps: caps{true, true, true, monoidInt, true, true}, lit: func(t *rapid.T) string {
			return strconv.Itoa(rapid.SampledFrom([]int{0, 1, 2, 3, 11, 12, 21, -1}).Draw(t, "int"))
		}},
		{expr: "int64", kind: "int64", caps: caps{true, true, true, false, true, true}, lit: func(t *rapid.T) string {
			return rapid.SampledFrom([]string{"0", "5", "-9223372036854775808", "9223372036854775807"}).Draw(t, "i64")
		}},
		{expr: "uint8", kind: "uint8", caps: caps{true, true, true, false, true, true}, lit: func(t *rapid.T) string {
			return strconv.Itoa(rapid.SampledFrom([]int{0, 1, 255}).Draw(t, "u8"))
		}},
		{expr: "float64", kind: "float64", caps: caps{true, true, true, false, true, true}, lit: func(t *rapid.T) string {
			// negZero (declared in the emitted test file) is -0.0: equal to 0 under ==, a different bit pattern
			return rapid.SampledFrom([]string{"0", "negZero", "1.5", "-2.25", "3", "0.25", "0.75"}).Draw(t, "f64")
		}},
		{expr: "string", kind: "string", caps: all, lit: func(t *rapid.T) string {
			return strconv.Quote(rapid.SampledFrom([]string{"", "mka", "mkb", "mkab", "mkz"}).Draw(t, "str"))
		}},
		{expr: "bool", kind: "bool", caps: caps{true, false, false, false, true, true}, lit: func(t *rapid.T) string {
			return strconv.FormatBool(rapid.Bool().Draw(t, "bool"))
		}},
		{expr: "[]byte", kind: "bytes", caps: caps{true, false, true, false, true, true}, lit: func(t *rapid.T) string {
			return rapid.SampledFrom([]string{"nil", "[]byte{}", "[]byte{1}", "[]byte{1, 2}"}).Draw(t, "bytes")
		}},
		{expr: "time.Time", kind: "time", imports: []string{"time"}, caps: caps{true, true, false, false, false, true}, lit: func(t *rapid.T) string {
			return rapid.SampledFrom([]string{"time.Unix(0, 0).UTC()", "time.Unix(1700000000, 0).UTC()", "time.Unix(1700000000, 0).In(time.FixedZone(\"x\", 3600))"}).Draw(t, "time")
		}},
	}
}

func dCompose(t *rapid.T, depth int, classes []string, base []dty, nested []dty) dty {
	ok := func(d dty) bool {
		for _, c := range classes {
			if !d.caps.has(c) {
				return false
			}
		}
		return true
	}
	var cands []dty
	for _, b := range base {
		if ok(b) {
			cands = append(cands, b)
		}
	}
	for _, n := range nested {
		if ok(n) {
			cands = append(cands, n, n)
		}
	}
	if len(cands) == 0 {
		return dty{}
	}
	if depth <= 0 {
		return rapid.SampledFrom(cands).Draw(t, "leaf")
	}
	elemOf := func() dty { return dCompose(t, depth-1, classes, base, nested) }
	kind := rapid.SampledFrom([]string{"leaf", "leaf", "option", "seq", "slice", "ptr", "gomap", "fpmap", "tuple2"}).Draw(t, "dkind")
	var r dty
	switch kind {
	case "leaf":
		return rapid.SampledFrom(cands).Draw(t, "leaf")
	case "option":
		e := elemOf()
		r = dty{expr: "fp.Option[" + e.expr + "]", kind: "option", caps: e.caps, imports: e.imports, lit: func(t *rapid.T) string {
			if rapid.IntRange(0, 2).Draw(t, "none") == 0 {
				return "option.None[" + e.expr + "]()"
			}
			return "option.Some[" + e.expr + "](" + e.lit(t) + ")"
		}}
	case "seq":
		e := elemOf()
		c := e.caps
		c.monoid = true // MergeSeq needs no element monoid
		r = dty{expr: "fp.Seq[" + e.expr + "]", kind: "fp.Seq", caps: c, imports: e.imports, lit: func(t *rapid.T) string {
			n := rapid.IntRange(0, 2).Draw(t, "n")
			if n == 0 {
				return rapid.SampledFrom([]string{"nil", "fp.Seq[" + e.expr + "]{}"}).Draw(t, "emptyseq")
			}
			var xs []string
			for i := 0; i < n; i++ {
				xs = append(xs, e.lit(t))
			}
			return "fp.Seq[" + e.expr + "]{" + strings.Join(xs, ", ") + "}"
		}}
	case "slice":
		e := elemOf()
		if e.expr == "uint8" {
			e = base[0]
		}
		c := e.caps
		c.monoid = true
		r = dty{expr: "[]" + e.expr, kind: "slice", caps: c, imports: e.imports, lit: func(t *rapid.T) string {
			n := rapid.IntRange(0, 2).Draw(t, "n")
			if n == 0 {
				return rapid.SampledFrom([]string{"nil", "[]" + e.expr + "{}"}).Draw(t, "emptyslice")
			}
			var xs []string
			for i := 0; i < n; i++ {
				xs = append(xs, e.lit(t))
			}
			return "[]" + e.expr + "{" + strings.Join(xs, ", ") + "}"
		}}
	case "ptr":
		e := elemOf()
		c := e.caps
		c.monoid = false
		r = dty{expr: "*" + e.expr, kind: "pointer", caps: c, imports: e.imports, lit: func(t *rapid.T) string {
			if rapid.IntRange(0, 2).Draw(t, "nil") == 0 {
				return "nil"
			}
			return "ptrOf[" + e.expr + "](" + e.lit(t) + ")"
		}}
	case "gomap":
		e := elemOf()
		c := caps{eq: e.caps.eq, clone: e.caps.clone, show: e.caps.show, monoid: true}
		r = dty{expr: "map[string]" + e.expr, kind: "map", caps: c, imports: e.imports, lit: func(t *rapid.T) string {
			n := rapid.IntRange(0, 2).Draw(t, "n")
			if n == 0 {
				return rapid.SampledFrom([]string{"nil", "map[string]" + e.expr + "{}"}).Draw(t, "emptymap")
			}
			var xs []string
			for i := 0; i < n; i++ {
				xs = append(xs, fmt.Sprintf("%q: %s", rapid.SampledFrom([]string{"k0", "k1", "k2"}).Draw(t, "key")+strconv.Itoa(i), e.lit(t)))
			}
			return "map[string]" + e.expr + "{" + strings.Join(xs, ", ") + "}"
		}}
	case "fpmap":
		e := elemOf()
		c := caps{eq: e.caps.eq, monoid: true}
		r = dty{expr: "fp.Map[string, " + e.expr + "]", kind: "fp.Map", caps: c, imports: e.imports, lit: func(t *rapid.T) string {
			s := "fp.Map[string, " + e.expr + "]{}"
			n := rapid.IntRange(0, 2).Draw(t, "n")
			for i := 0; i < n; i++ {
				s += fmt.Sprintf(".Updated(%q, %s)", rapid.SampledFrom([]string{"k0", "k1", "k2"}).Draw(t, "key"), e.lit(t))
			}
			return s
		}}
	default:
		a, b := elemOf(), elemOf()
		r = dty{expr: "fp.Tuple2[" + a.expr + ", " + b.expr + "]", kind: "fp.Tuple2", caps: a.caps.and(b.caps), imports: append(a.imports, b.imports...), lit: func(t *rapid.T) string {
			return "fp.Tuple2[" + a.expr + ", " + b.expr + "]{I1: " + a.lit(t) + ", I2: " + b.lit(t) + "}"
		}}
	}
	if !ok(r) {
		return rapid.SampledFrom(cands).Draw(t, "fallback")
	}
	return r
}

type dfield struct {
	name string
	t    dty
}

type dstruct struct {
	name      string
	params    []string // type parameter names (constraint any), instantiated with int, string
	fields    []dfield
	classes   []string
	recursive bool // self reference through a pointer field
	plain     bool // no @fp.Value: a "legacy" struct with exported (or mixed) fields
	values    [][]string
}

type dpkg struct {
	errVar bool
	structs       []dstruct
	intEq10       bool
	intOrdRev     bool
	intProd       bool
	monoidInt     bool
	recFlag       bool // @fp.Derive(recursive=true) on the last struct only, nested ones not derived explicitly
	excludedKnown bool
}

var dClasses = []string{"Eq", "Ord", "Hashable", "Monoid", "Clone", "Show"}
var dClassPkg = map[string]string{"Eq": "eq", "Ord": "ord", "Hashable": "hash", "Monoid": "monoid", "Clone": "clone", "Show": "show"}

func paramInst(p string) string {
	if p == "TA" {
		return "int"
	}
	return "string"
}

func (s dstruct) instExpr() string {
	if len(s.params) == 0 {
		return s.name
	}
	var ps []string
	for _, p := range s.params {
		ps = append(ps, paramInst(p))
	}
	return s.name + "[" + strings.Join(ps, ", ") + "]"
}

func (s dstruct) anyExpr() string {
	if len(s.params) == 0 {
		return s.name
	}
	var ps []string
	for range s.params {
		ps = append(ps, "any")
	}
	return s.name + "[" + strings.Join(ps, ", ") + "]"
}

func (s dstruct) declParams() string {
	if len(s.params) == 0 {
		return ""
	}
	var ps []string
	for _, p := range s.params {
		ps = append(ps, p+" any")
	}
	return "[" + strings.Join(ps, ", ") + "]"
}

func substD(expr string, s dstruct) string {
	for _, p := range s.params {
		expr = strings.ReplaceAll(expr, "«"+p+"»", paramInst(p))
	}
	return expr
}

func drawDPkg(t *rapid.T, excl map[string]bool, focus string) dpkg {
	var p dpkg
	p.monoidInt = true
	p.intEq10 = rapid.IntRange(0, 3).Draw(t, "overrideEqInt") == 0
	p.intOrdRev = rapid.IntRange(0, 3).Draw(t, "overrideOrdInt") == 0
	p.intProd = rapid.Bool().Draw(t, "monoidIntProduct")
	// an ordinary package-level sentinel `var ErrX = errors.New(..)`: gombok scans the package's variables
	// and functions for typeclass instances, whatever their type
	p.errVar = rapid.Bool().Draw(t, "pkgLevelErrorVar")
	n := rapid.IntRange(1, 3).Draw(t, "nstructs")
	// recursive=true: only the last struct carries directives, nested structs get their instances implicitly
	p.recFlag = n >= 2 && rapid.IntRange(0, 2).Draw(t, "recursiveFlag") == 0
	if focus == "recursive-plain" {
		// focused shape: recursive=true over plain (non @fp.Value) nested structs
		n = rapid.IntRange(2, 3).Draw(t, "nstructsFocus")
		p.recFlag = true
	}
	if focus == "generic-nested" {
		// focused shape: a generic struct with two type parameters, used by a later struct
		n = rapid.IntRange(2, 3).Draw(t, "nstructsFocus")
		p.recFlag = false
	}
	var pkgClasses []string
	var nested []dty
	for i := 0; i < n; i++ {
		s := dstruct{name: fmt.Sprintf("D%d", i+1)}
		// classes to derive for this struct
		if p.recFlag && pkgClasses != nil {
			s.classes = pkgClasses
		} else {
			k := rapid.IntRange(1, 3).Draw(t, "nclasses")
			perm := rapid.Permutation(dClasses).Draw(t, "classes")
			for _, c := range perm {
				if len(s.classes) < k && !excl[c] {
					s.classes = append(s.classes, c)
				}
			}
			sort.Strings(s.classes)
			pkgClasses = s.classes
		}
		if !p.recFlag && rapid.IntRange(0, 3).Draw(t, "generic") == 0 {
			s.params = []string{"TA", "TB"}[:rapid.IntRange(1, 2).Draw(t, "nparams")]
		}
		if focus == "generic-nested" {
			s.params = nil
			if i == 0 {
				s.params = []string{"TA", "TB"}
			} else {
				// later structs derive what the generic one derives, so that it is usable as a field type
				s.classes = p.structs[0].classes
			}
		}
		base := dBasic(p.monoidInt)
		for _, prm := range s.params {
			prm := prm
			inst := paramInst(prm)
			var src dty
			for _, b := range base {
				if b.expr == inst {
					src = b
				}
			}
			base = append(base, dty{expr: "«" + prm + "»", kind: "typeparam", caps: src.caps, lit: src.lit, param: prm})
			base = append(base, dty{expr: "«" + prm + "»", kind: "typeparam", caps: src.caps, lit: src.lit, param: prm})
		}
		// nested structs are only usable if they derive every class this struct derives
		var usable []dty
		for _, nd := range nested {
			ok := true
			for _, c := range s.classes {
				if !nd.caps.has(c) {
					ok = false
				}
			}
			if ok {
				usable = append(usable, nd)
			}
		}
		nf := rapid.IntRange(1, 6).Draw(t, "nfields")
		// a plain struct (no @fp.Value) with exported or mixed-visibility fields; never the last struct
		s.plain = len(s.params) == 0 && i < n-1 && (focus == "recursive-plain" || rapid.IntRange(0, 2).Draw(t, "plainStruct") == 0)
		for j := 0; j < nf; j++ {
			ft := dCompose(t, rapid.IntRange(0, 2).Draw(t, "depth"), s.classes, base, usable)
			if focus == "recursive-plain" && i == n-1 && j == 0 && len(usable) > 0 {
				// the struct carrying the directive uses a nested plain struct (directly, by pointer or in a slice)
				nd := rapid.SampledFrom(usable).Draw(t, "nestedField")
				switch rapid.IntRange(0, 2).Draw(t, "nestedWrap") {
				case 0:
					ft = nd
				case 1:
					ft = dty{expr: "*" + nd.expr, kind: "pointer", caps: nd.caps, nested: nd.nested, lit: func(t *rapid.T) string { return "ptrOf[" + nd.expr + "](" + nd.lit(t) + ")" }}
				default:
					ft = dty{expr: "[]" + nd.expr, kind: "slice", caps: nd.caps, nested: nd.nested, lit: func(t *rapid.T) string { return "[]" + nd.expr + "{" + nd.lit(t) + "}" }}
				}
			}
			if focus == "generic-nested" {
				prm := func(name string) dty {
					for _, b := range base {
						if b.param == name {
							return b
						}
					}
					return base[4]
				}
				switch {
				case i == 0 && j == 0:
					// which parameter the fields use first is drawn: the declaration order is TA, TB
					ft = prm(rapid.SampledFrom([]string{"TB", "TB", "TA"}).Draw(t, "firstUsedParam"))
				case i == 0 && j == 1 && s.fields[0].t.param != "":
					ft = prm(map[string]string{"TA": "TB", "TB": "TA"}[s.fields[0].t.param])
					if rapid.IntRange(0, 4).Draw(t, "otherParamUnused") == 0 {
						ft = base[4]
					}
				case i > 0 && j == 0 && len(usable) > 0:
					nd := usable[0]
					switch rapid.IntRange(0, 3).Draw(t, "nestedWrap") {
					case 0, 1:
						ft = nd
					case 2:
						ft = dty{expr: "*" + nd.expr, kind: "pointer", caps: nd.caps, nested: nd.nested, lit: func(t *rapid.T) string { return "ptrOf[" + nd.expr + "](" + nd.lit(t) + ")" }}
					default:
						ft = dty{expr: "[]" + nd.expr, kind: "slice", caps: nd.caps, nested: nd.nested, lit: func(t *rapid.T) string { return "[]" + nd.expr + "{" + nd.lit(t) + "}" }}
					}
				}
			}
			if ft.expr == "" {
				ft = base[4] // string supports everything
			}
			name := safeNames[j]
			if s.plain && (j == 0 || rapid.Bool().Draw(t, "exported")) {
				name = strings.ToUpper(name[:1]) + name[1:]
			}
			s.fields = append(s.fields, dfield{name: name, t: ft})
		}
		// Under recursive=true a nested struct without its own directive resolves to eq.Given[T comparable]
		// (Go ==) whenever it is comparable: the documented fallback, which is field-wise only for
		// value-only structs and ignores local overriding instances. To demand field-wise semantics of
		// nested structs they are made non-comparable (then gombok derives them).
		if p.recFlag && i < n-1 {
			for _, c := range s.classes {
				if c == "Eq" {
					sl := dty{expr: "[]int", kind: "slice", caps: all, lit: func(t *rapid.T) string {
						return rapid.SampledFrom([]string{"nil", "[]int{}", "[]int{1}", "[]int{1, 2}"}).Draw(t, "extra")
					}}
					s.fields = append(s.fields, dfield{name: "Extra", t: sl})
					break
				}
			}
		}
		// recursion through a pointer (not for Monoid: Ptr monoid is out of the grammar; not generic)
		hasMonoid := false
		for _, c := range s.classes {
			if c == "Monoid" {
				hasMonoid = true
			}
		}
		if !hasMonoid && !s.plain && len(s.params) == 0 && rapid.IntRange(0, 3).Draw(t, "recursive") == 0 {
			s.recursive = true
			s.fields = append(s.fields, dfield{name: "next", t: dty{expr: "*" + s.name, kind: "self-pointer", caps: all, lit: func(t *rapid.T) string {
				if rapid.Bool().Draw(t, "nilnext") {
					return "nil"
				}
				return "&" + s.name + "{}"
			}}})
		}
		// values: v0 random, v1 = v0 with one field changed, v2 = v0 with a suffix changed, v3 random
		draw := func() []string {
			var l []string
			for _, f := range s.fields {
				l = append(l, f.t.lit(t))
			}
			return l
		}
		v0 := draw()
		v1 := append([]string{}, v0...)
		pidx := rapid.IntRange(0, len(s.fields)-1).Draw(t, "changeAt")
		v1[pidx] = s.fields[pidx].t.lit(t)
		v2 := append([]string{}, v0...)
		for j := pidx; j < len(s.fields); j++ {
			v2[j] = s.fields[j].t.lit(t)
		}
		s.values = [][]string{v0, v1, v2, draw(), append([]string{}, v0...)}
		p.structs = append(p.structs, s)
		{
			c := caps{}
			for _, cl := range s.classes {
				switch cl {
				case "Eq":
					c.eq = true
				case "Ord":
					c.ord = true
				case "Hashable":
					c.hash = true
					c.eq = c.eq || false
				case "Monoid":
					c.monoid = true
				case "Clone":
					c.clone = true
				case "Show":
					c.show = true
				}
			}
			sc := s
			kind := "nested-struct"
			if len(s.params) > 0 {
				// a generic struct used by a later struct at its instantiation D[int, string]: the call site
				// gombok emits for the derived instance function has to pass one instance per type parameter
				// in the order that function declares them (whatever order the fields use the parameters in)
				kind = "nested-generic"
			}
			nested = append(nested, dty{expr: s.instExpr(), kind: kind, caps: c, nested: s.name, lit: func(t *rapid.T) string {
				var parts []string
				for _, f := range sc.fields {
					if f.t.kind == "self-pointer" {
						continue
					}
					parts = append(parts, f.name+": "+substD(f.t.lit(t), sc))
				}
				return sc.instExpr() + "{" + strings.Join(parts, ", ") + "}"
			}})
		}
	}
	if p.recFlag && knownRecursiveMonoidShape(p) {
		// recorded known finding (D16): excluded by construction so that the search continues behind it
		p.recFlag = false
		p.excludedKnown = true
	}
	return p
}

// knownRecursiveMonoidShape: @fp.Derive(recursive=true) of Monoid over a field of a generic named
// non-struct type without a by-name instance (fp.Seq, fp.Map).
func knownRecursiveMonoidShape(p dpkg) bool {
	for _, s := range p.structs {
		mon := false
		for _, c := range s.classes {
			if c == "Monoid" {
				mon = true
			}
		}
		if !mon {
			continue
		}
		for _, f := range s.fields {
			if strings.Contains(f.t.expr, "fp.Seq[") || strings.Contains(f.t.expr, "fp.Map[") {
				return true
			}
		}
	}
	return false
}

func (p dpkg) source() string {
	var sb strings.Builder
	sb.WriteString(`package pa

import (
	"errors"
	"time"

	"github.com/csgura/fp"
	"github.com/csgura/fp/clone"
	"github.com/csgura/fp/eq"
	"github.com/csgura/fp/hash"
	"github.com/csgura/fp/monoid"
	"github.com/csgura/fp/option"
	"github.com/csgura/fp/ord"
	"github.com/csgura/fp/show"
)

var _ = errors.New
var _ = time.Second
var _ fp.Unit
var _ = option.None[int]
var _ = clone.Given[int]
var _ = eq.Given[int]
var _ = hash.String
var _ = monoid.String
var _ = ord.Given[int]
var _ = show.String

func ptrOf[T any](v T) *T { return &v }

`)
	if p.errVar {
		sb.WriteString("// ErrNotFound is an ordinary sentinel error of the package\nvar ErrNotFound = errors.New(\"not found\")\n\nfunc lastError() error { return ErrNotFound }\n\n")
	}
	uses := map[string]bool{}
	for _, s := range p.structs {
		for _, c := range s.classes {
			uses[c] = true
		}
	}
	if p.intEq10 && uses["Eq"] {
		sb.WriteString("// local instance: overrides eq.Given[int] for fields of type int\nvar EqInt = eq.New(func(a, b int) bool { return a%10 == b%10 })\n\n")
	}
	if p.intOrdRev && uses["Ord"] {
		sb.WriteString("// local instance: int fields are ordered descending\nvar OrdInt = ord.Given[int]().Reversed()\n\n")
	}
	if uses["Monoid"] {
		if p.intProd {
			sb.WriteString("var MonoidInt = monoid.Product[int]()\n\n")
		} else {
			sb.WriteString("var MonoidInt = monoid.Sum[int]()\n\n")
		}
	}
	for _, s := range p.structs {
		if s.plain {
			fmt.Fprintf(&sb, "// %s is a plain struct without @fp.Value\ntype %s%s struct {\n", s.name, s.name, s.declParams())
		} else {
			fmt.Fprintf(&sb, "// @fp.Value\ntype %s%s struct {\n", s.name, s.declParams())
		}
		for _, f := range s.fields {
			e := f.t.expr
			for _, prm := range s.params {
				e = strings.ReplaceAll(e, "«"+prm+"»", prm)
			}
			fmt.Fprintf(&sb, "\t%s %s\n", f.name, e)
		}
		sb.WriteString("}\n\n")
		last := s.name == p.structs[len(p.structs)-1].name
		for _, c := range s.classes {
			if p.recFlag {
				if last {
					fmt.Fprintf(&sb, "// @fp.Derive(recursive=true)\nvar _ %s.Derives[fp.%s[%s]]\n\n", dClassPkg[c], c, s.anyExpr())
				}
				continue
			}
			fmt.Fprintf(&sb, "// @fp.Derive\nvar _ %s.Derives[fp.%s[%s]]\n\n", dClassPkg[c], c, s.anyExpr())
		}
	}
	return sb.String()
}

func (p dpkg) ovEq() bool {
	return p.intEq10
}

func (p dpkg) cases() string {
	var sb strings.Builder
	sb.WriteString(`package pa

import (
	"math"
	"reflect"
	"time"

	"github.com/csgura/fp"
	"github.com/csgura/fp/clone"
	"github.com/csgura/fp/eq"
	"github.com/csgura/fp/hash"
	"github.com/csgura/fp/monoid"
	"github.com/csgura/fp/option"
	"github.com/csgura/fp/ord"
	"github.com/csgura/fp/show"
)

var _ = time.Second
var _ fp.Unit
var _ = option.None[int]

var negZero = math.Copysign(0, -1)

func typeOf[T any]() reflect.Type { return reflect.TypeOf((*T)(nil)).Elem() }

// instances handed to generic derived functions for their type parameters: for int they have the
// same semantics as the package's local overriding instances, so that one reference serves both
var dRegistry = map[reflect.Type]any{
	typeOf[fp.Eq[int]]():          REG_EQ_INT,
	typeOf[fp.Eq[string]]():       eq.String,
	typeOf[fp.Ord[int]]():         REG_ORD_INT,
	typeOf[fp.Ord[string]]():      ord.Given[string](),
	typeOf[fp.Hashable[int]]():    hash.Number[int](),
	typeOf[fp.Hashable[string]](): hash.String,
	typeOf[fp.Monoid[int]]():      REG_MONOID_INT,
	typeOf[fp.Monoid[string]]():   monoid.String,
	typeOf[fp.Clone[int]]():       clone.Given[int](),
	typeOf[fp.Clone[string]]():    clone.Given[string](),
	typeOf[fp.Show[int]]():        show.Int[int](),
	typeOf[fp.Show[string]]():     show.String,
}

func mustInst(name string, fn any) (any, int) {
	i, n, err := inst(fn, dRegistry)
	if err != "" {
		dFailed++
		println("LAWFAIL\t" + name + "\tarity\t" + err)
		return nil, n
	}
	return i, n
}

`)
	regEq, regOrd, regMon := "eq.Given[int]()", "ord.Given[int]()", "monoid.Sum[int]()"
	if p.intEq10 {
		regEq = "eq.New(func(a, b int) bool { return a%10 == b%10 })"
	}
	if p.intOrdRev {
		regOrd = "ord.Given[int]().Reversed()"
	}
	if p.intProd {
		regMon = "monoid.Product[int]()"
	}
	out := strings.NewReplacer("REG_EQ_INT", regEq, "REG_ORD_INT", regOrd, "REG_MONOID_INT", regMon).Replace(sb.String())
	sb.Reset()
	sb.WriteString(out)
	fmt.Fprintf(&sb, "var dOverrides = dOverride{IntEqMod10: %v, IntOrdReversed: %v, IntProduct: %v}\n\n", p.intEq10, p.intOrdRev, p.intProd)
	sb.WriteString("var dCases = func() []dCase {\n\tvar cs []dCase\n")
	for si, s := range p.structs {
		if p.recFlag && si != len(p.structs)-1 {
			continue
		}
		fmt.Fprintf(&sb, "\t{\n\t\tvalues := []any{\n")
		for _, lits := range s.values {
			fmt.Fprintf(&sb, "\t\t\t%s{", s.instExpr())
			for i, f := range s.fields {
				fmt.Fprintf(&sb, "%s: %s, ", f.name, substD(lits[i], s))
			}
			sb.WriteString("},\n")
		}
		sb.WriteString("\t\t}\n\t\tapplied := []string{")
		for _, f := range s.fields {
			fmt.Fprintf(&sb, "%q, ", f.name)
		}
		sb.WriteString("}\n")
		for _, c := range s.classes {
			fn := c + s.name
			if len(s.params) > 0 {
				var ps []string
				for _, prm := range s.params {
					ps = append(ps, paramInst(prm))
				}
				fn += "[" + strings.Join(ps, ", ") + "]"
			}
			fmt.Fprintf(&sb, "\t\tif in, n := mustInst(%q, %s); in != nil {\n\t\t\tcs = append(cs, dCase{Struct: %q, Class: %q, Inst: in, NumIn: n, MaxIn: %d, Values: values, Applied: applied})\n\t\t}\n", s.name, fn, s.name, c, len(s.params))
		}
		sb.WriteString("\t}\n")
	}
	sb.WriteString("\treturn cs\n}()\n")
	return sb.String()
}

func (p dpkg) describe() string {
	var sb strings.Builder
	fmt.Fprintf(&sb, "overrides(EqInt mod10=%v, OrdInt reversed=%v, MonoidInt product=%v) recursive=true on last struct only: %v; package-level error var: %v\n", p.intEq10, p.intOrdRev, p.intProd, p.recFlag, p.errVar)
	for _, s := range p.structs {
		fmt.Fprintf(&sb, "%s%s plain=%v derive%v {", s.name, s.declParams(), s.plain, s.classes)
		for _, f := range s.fields {
			fmt.Fprintf(&sb, "%s %s; ", f.name, f.t.expr)
		}
		fmt.Fprintf(&sb, "} values=%v\n", s.values)
	}
	return sb.String()
}

// ExcludeDerive lists typeclasses removed from the generator (recorded known findings).
var ExcludeDerive = map[string]bool{}

func init() {
	if v := os.Getenv("VERIF_C08_EXCLUDE_CLASSES"); v != "" {
		for _, n := range strings.Split(v, ",") {
			ExcludeDerive[n] = true
		}
	}
}

func runDerivePackage(p dpkg) (fails []outcome, stage string) {
	m, err := scratch.NewModule()
	if err != nil {
		return []outcome{{"infra", err.Error()}}, "infra"
	}
	defer m.Remove()
	_ = m.WriteFile("pa/types.go", p.source())
	g := m.RunGombok("pa", "pa")
	if g.TimedOut {
		return []outcome{{"gombok|timeout", "gombok did not finish within 120 s"}}, "gombok"
	}
	if scratch.ToolchainTrouble(g.Out) {
		return []outcome{{"infra|toolchain-trouble", clip(g.Out, 600)}}, "infra"
	}
	if g.ExitCode != 0 || strings.Contains(g.Out, "panic:") {
		first := ""
		for _, l := range strings.Split(g.Out, "\n") {
			if strings.HasPrefix(l, "panic:") {
				first = l
				break
			}
		}
		if first == "" {
			first = scratch.FirstError(g.Out)
		}
		if strings.Contains(first, "can't summon") {
			// gombok's clean, declared rejection of a shape it does not support: outside the property
			return []outcome{{"rejected", first}}, "rejected"
		}
		return []outcome{{"gombok-failed|" + scratch.ErrorClass(first), "gombok exit " + fmt.Sprint(g.ExitCode) + ": " + clip(g.Out, 1500)}}, "gombok"
	}
	if r := m.Go(180*time.Second, "build", "./pa"); r.ExitCode != 0 {
		fe := scratch.FirstError(r.Out)
		return []outcome{{"compile|" + scratch.ErrorClass(stripPos(fe)), "generated code does not compile: " + clip(r.Out, 1500) + "\n--- derive file:\n" + clip(m.ReadFile("pa/pa_derive_generated.go"), 2500)}}, "compile"
	}
	law := strings.Replace(scratch.DeriveLib, "package PKGNAME", "package pa", 1)
	_ = m.WriteFile("pa/zz_derive_test.go", law)
	_ = m.WriteFile("pa/zz_dcases_test.go", p.cases())
	r := m.Go(300*time.Second, "test", "-count=1", "-vet=off", "-v", "./pa")
	if r.TimedOut {
		return []outcome{{"law|timeout", "law test did not finish"}}, "law"
	}
	seen := map[string]bool{}
	for _, l := range strings.Split(r.Out, "\n") {
		if strings.HasPrefix(l, "LAWFAIL\t") {
			parts := strings.SplitN(l, "\t", 4)
			if len(parts) == 4 && !seen[parts[2]] {
				seen[parts[2]] = true
				fails = append(fails, outcome{"law|" + parts[2], parts[1] + ": " + parts[3]})
			}
		}
	}
	if len(fails) == 0 && r.ExitCode != 0 {
		if strings.Contains(r.Out, "[build failed]") || strings.Contains(r.Out, "[setup failed]") {
			return []outcome{{"infra|law-test-does-not-compile", clip(r.Out, 2500) + "\n--- derive file:\n" + clip(m.ReadFile("pa/pa_derive_generated.go"), 2500)}}, "infra"
		}
		return []outcome{{"law|crash", clip(r.Out, 2000)}}, "law"
	}
	if len(fails) == 0 && !strings.Contains(r.Out, "LAWS-OK") {
		return []outcome{{"infra|law-test-did-not-run", clip(r.Out, 1500)}}, "infra"
	}
	return fails, "law"
}

const ruleC08 = "package spec drawn from a grammar: 1-3 @fp.Value structs (0-2 type parameters, optional recursion through a pointer, nesting of earlier derived structs, generic ones at the instantiation D[int, string]), 1-7 fields over the kinds each typeclass package supports (ints, float64, string, bool, []byte, time.Time, Option, fp.Seq, slice, pointer, Go map, fp.Map, Tuple2, nested struct, type parameter), 1-3 @fp.Derive directives per struct out of Eq/Ord/Hashable/Monoid/Clone/Show, optional local overriding instances (EqInt = equality mod 10, OrdInt = descending, MonoidInt = Sum or Product); 5 values per struct (random, one field changed, a suffix changed, random, copy). Pipeline: gombok from the tree under test -> go build -> reflective law test with reference semantics (conjunction / lexicographic / field-wise / deep copy). Non-trivial iff a struct is nested, generic or recursive; distinct by rendered spec"

// DrawDeriveSource draws a package from the C08 grammar (source text of pa/types.go) for C13.
func DrawDeriveSource(rt *rapid.T) (src string, labels []string) {
	p := drawDPkg(rt, ExcludeDerive, "")
	seen := map[string]bool{}
	add := func(l string) {
		if !seen[l] {
			seen[l] = true
			labels = append(labels, l)
		}
	}
	add(fmt.Sprintf("structs:%d", len(p.structs)))
	if p.recFlag {
		add("recursive=true")
	}
	for _, s := range p.structs {
		if len(s.params) > 0 {
			add("generic")
		}
		for _, c := range s.classes {
			add("class:" + c)
		}
	}
	return p.source(), labels
}

// DeriveCheck registers the sub-check that runs generated packages with @fp.Derive through gombok.
func DeriveCheck(t *testing.T, name string, casesPerProcess int, focus string) {
	kit.Check(t, name, ruleC08, kit.Opt{Abs: casesPerProcess, HangAfter: 20 * time.Minute}, func(rt *rapid.T, rec *kit.Rec) {
		p := drawDPkg(rt, ExcludeDerive, focus)
		if p.excludedKnown {
			rec.Excluded()
		}
		if p.recFlag {
			rec.Label("recursive=true")
		}
		nt := p.recFlag
		for _, s := range p.structs {
			if len(s.params) > 0 {
				nt = true
				rec.Label("generic")
			}
			if s.recursive {
				nt = true
				rec.Label("recursive")
			}
			for _, c := range s.classes {
				rec.Label("class:" + c)
			}
			for _, f := range s.fields {
				rec.Label("kind:" + f.t.kind)
				if f.t.nested != "" {
					nt = true
				}
			}
		}
		rec.Case(nt, p.describe())
		fails, stage := runDerivePackage(p)
		rec.Label("stage:" + stage)
		if stage == "rejected" {
			rec.Label("rejected:" + clip(fails[0].msg, 80))
			return
		}
		for _, s := range p.structs {
			if s.plain {
				rec.Label("plain-struct")
			}
		}
		for _, f := range fails {
			if strings.HasPrefix(f.sig, "infra") {
				rec.Failf(rt, "HARNESS|"+f.sig, "harness problem (not a property violation): %s\nspec:\n%s", f.msg, p.describe())
			}
		}
		for _, f := range fails {
			rec.Failf(rt, "C08|"+f.sig, "%s\nspec:\n%s", f.msg, p.describe())
		}
	})
}

// KnownD16Check exercises the recorded known finding D16 with its fixed minimal input, so that the
// check prints KNOWN-FINDING while the defect exists and reports nothing once it is repaired.
func KnownD16Check(t *testing.T) {
	kit.Plain(t, "derive/known-shape/monoid-recursive-named-generic", "fixed input: @fp.Derive(recursive=true) of fp.Monoid for a struct nesting a struct with an fp.Seq[int] field (2 fixed packages: fp.Seq and fp.Map)", func(t *testing.T, rec *kit.Rec) {
		str := dBasic(true)[4]
		for _, ft := range []dty{
			{expr: "fp.Seq[int]", kind: "fp.Seq", caps: all, lit: func(*rapid.T) string { return "fp.Seq[int]{1}" }},
			{expr: "fp.Map[string, int]", kind: "fp.Map", caps: all, lit: func(*rapid.T) string { return "fp.Map[string, int]{}" }},
		} {
			inner := dstruct{name: "D1", classes: []string{"Monoid"}, fields: []dfield{{name: "name", t: ft}, {name: "count", t: str}},
				values: [][]string{{ft.lit(nil), `"mka"`}, {ft.lit(nil), `"mkb"`}}}
			outer := dstruct{name: "D2", classes: []string{"Monoid"}, fields: []dfield{{name: "name", t: dty{expr: "D1", kind: "nested-struct", caps: all, nested: "D1"}}, {name: "count", t: str}},
				values: [][]string{{"D1{name: " + ft.lit(nil) + `, count: "mka"}`, `"mkz"`}, {"D1{name: " + ft.lit(nil) + `, count: ""}`, `"mkb"`}}}
			p := dpkg{structs: []dstruct{inner, outer}, recFlag: true, monoidInt: true}
			rec.Case(true, p.describe())
			fails, _ := runDerivePackage(p)
			for _, f := range fails {
				if strings.HasPrefix(f.sig, "infra") {
					rec.PlainFail(t, "HARNESS|"+f.sig, "%s", f.msg)
				}
				cls := "law"
				if strings.HasPrefix(f.sig, "compile") {
					cls = "compile"
				} else if strings.HasPrefix(f.sig, "gombok") {
					cls = "gombok"
				}
				rec.PlainFail(t, "C08|known-shape|monoid-recursive-named-generic|"+cls, "%s\nspec:\n%s", f.msg, p.describe())
			}
		}
	})
}

// ---- two-package instance precedence --------------------------------------------------------------

// PrecedenceCheck: a type declared in package pa, derived in working package pw; instances for the
// field type pa.MyInt may exist in pw (working package), in pa (the type's own package) or nowhere
// (derive package fallback). They are made observably different; the reference uses the instance the
// documented rule selects: working package, then the type's package, then the derive package.
func PrecedenceCheck(t *testing.T, name string, casesPerProcess int) {
	kit.Check(t, name, "configuration drawn: typeclass (Eq/Ord/Monoid), which of {working package, type's package} declare an instance for the field type pa.MyInt, how the working-package instance is named (EqPaMyInt / EqMyInt), field values; two scratch packages pa (type, @fp.Value) and pw (directive); oracle: the derived instance for pa.T behaves field-wise with the instance the documented precedence selects; non-trivial iff both packages declare an instance; distinct by configuration+values", kit.Opt{Abs: casesPerProcess, HangAfter: 20 * time.Minute}, func(rt *rapid.T, rec *kit.Rec) {
		class := rapid.SampledFrom([]string{"Eq", "Ord", "Monoid"}).Draw(rt, "class")
		pwInst := rapid.Bool().Draw(rt, "instanceInWorkingPkg")
		paInst := rapid.Bool().Draw(rt, "instanceInTypePkg")
		if class == "Monoid" && !pwInst && !paInst {
			paInst = true // no fallback instance exists for a numeric Monoid: gombok rejects ("can't summon")
		}
		prefixed := rapid.Bool().Draw(rt, "prefixedName")
		vals := make([][3]string, 4)
		for i := range vals {
			n := rapid.IntRange(0, 12).Draw(rt, "name")
			c := rapid.IntRange(0, 3).Draw(rt, "count")
			k := rapid.IntRange(0, 2).Draw(rt, "ntags")
			tags := []string{}
			for j := 0; j < k; j++ {
				tags = append(tags, strconv.Itoa(rapid.IntRange(0, 12).Draw(rt, "tag")))
			}
			vals[i] = [3]string{strconv.Itoa(n), strconv.Itoa(c), "[]pa.MyInt{" + strings.Join(tags, ", ") + "}"}
		}
		desc := fmt.Sprintf("class=%s pw=%v(prefixed=%v) pa=%v values=%v", class, pwInst, prefixed, paInst, vals)
		rec.Case(pwInst && paInst, desc)
		rec.Label("class:" + class)
		pkg := dClassPkg[class]
		// level semantics
		lvl := "none"
		if pwInst {
			lvl = "pw"
		} else if paInst {
			lvl = "pa"
		}
		instBody := func(level string) string {
			switch class {
			case "Eq":
				m := map[string]string{"pw": "2", "pa": "3"}[level]
				return "eq.New(func(a, b MyIntT) bool { return a%" + m + " == b%" + m + " })"
			case "Ord":
				if level == "pw" {
					return "ord.New(eq.Given[MyIntT](), func(a, b MyIntT) bool { return a > b })"
				}
				return "ord.New(eq.Given[MyIntT](), func(a, b MyIntT) bool { return a%5 < b%5 || (a%5 == b%5 && a < b) })"
			default:
				if level == "pw" {
					return "monoid.Product[MyIntT]()"
				}
				return "monoid.Sum[MyIntT]()"
			}
		}
		m, err := scratch.NewModule()
		if err != nil {
			rec.Failf(rt, "HARNESS|infra", "%v", err)
		}
		defer m.Remove()
		pa := "package pa\n\nimport (\n\t\"github.com/csgura/fp\"\n\t\"github.com/csgura/fp/eq\"\n\t\"github.com/csgura/fp/monoid\"\n\t\"github.com/csgura/fp/ord\"\n)\n\nvar _ fp.Unit\nvar _ = eq.Given[int]\nvar _ = monoid.String\nvar _ = ord.Given[int]\n\ntype MyInt int\n\n"
		if paInst {
			pa += "// instance in the type's own package\nvar " + class + "MyInt = " + strings.ReplaceAll(instBody("pa"), "MyIntT", "MyInt") + "\n\n"
		}
		pa += "// @fp.Value\ntype T struct {\n\tname MyInt\n\tcount int\n\ttags []MyInt\n}\n"
		_ = m.WriteFile("pa/types.go", pa)
		pw := "package pw\n\nimport (\n\t\"scratch/pa\"\n\n\t\"github.com/csgura/fp\"\n\t\"github.com/csgura/fp/eq\"\n\t\"github.com/csgura/fp/monoid\"\n\t\"github.com/csgura/fp/ord\"\n)\n\nvar _ fp.Unit\nvar _ = eq.Given[int]\nvar _ = monoid.String\nvar _ = ord.Given[int]\nvar _ pa.MyInt\n\nvar MonoidInt = monoid.Sum[int]()\n\n"
		if pwInst {
			n := class + "MyInt"
			if prefixed {
				n = class + "PaMyInt"
			}
			pw += "// instance in the working package\nvar " + n + " = " + strings.ReplaceAll(instBody("pw"), "MyIntT", "pa.MyInt") + "\n\n"
		}
		pw += "// @fp.Derive\nvar _ " + pkg + ".Derives[fp." + class + "[pa.T]]\n"
		_ = m.WriteFile("pw/derive.go", pw)
		for _, d := range []string{"pa", "pw"} {
			g := m.RunGombok(d, d)
			if scratch.ToolchainTrouble(g.Out) {
				rec.Failf(rt, "HARNESS|infra|toolchain-trouble", "%s", clip(g.Out, 600))
			}
			if g.ExitCode != 0 || strings.Contains(g.Out, "panic:") {
				if strings.Contains(g.Out, "can't summon") {
					rec.Label("rejected")
					return
				}
				rec.Failf(rt, "C08|precedence|gombok-failed|"+class, "gombok failed in %s: %s\n%s", d, clip(g.Out, 1200), desc)
			}
		}
		if r := m.Go(180*time.Second, "build", "./..."); r.ExitCode != 0 {
			if scratch.ToolchainTrouble(r.Out) {
				rec.Failf(rt, "HARNESS|infra|resource-exhaustion", "%s", clip(r.Out, 400))
			}
			rec.Failf(rt, "C08|precedence|compile|"+class, "generated code does not compile: %s\n%s\n--- derive file:\n%s", clip(r.Out, 1200), desc, clip(m.ReadFile("pw/pw_derive_generated.go"), 1500))
		}
		// emitted test in pw: reference with the selected level
		var tb strings.Builder
		tb.WriteString("package pw\n\nimport (\n\t\"fmt\"\n\t\"testing\"\n\n\t\"scratch/pa\"\n)\n\n")
		fmt.Fprintf(&tb, "const level = %q\nconst class = %q\n\n", lvl, class)
		tb.WriteString(`func eqMy(a, b pa.MyInt) bool {
	switch level {
	case "pw":
		return a%2 == b%2
	case "pa":
		return a%3 == b%3
	}
	return a == b
}

func lessMy(a, b pa.MyInt) bool {
	switch level {
	case "pw":
		return a > b
	case "pa":
		return a%5 < b%5 || (a%5 == b%5 && a < b)
	}
	return a < b
}

func combMy(a, b pa.MyInt) pa.MyInt {
	if level == "pw" {
		return a * b
	}
	return a + b
}

func refEq(x, y pa.T) bool {
	if !eqMy(x.Name(), y.Name()) || x.Count() != y.Count() || len(x.Tags()) != len(y.Tags()) {
		return false
	}
	for i := range x.Tags() {
		if !eqMy(x.Tags()[i], y.Tags()[i]) {
			return false
		}
	}
	return true
}

func refCmp(x, y pa.T) int {
	c := func(a, b pa.MyInt) int {
		if lessMy(a, b) {
			return -1
		}
		if lessMy(b, a) {
			return 1
		}
		return 0
	}
	if r := c(x.Name(), y.Name()); r != 0 {
		return r
	}
	if x.Count() != y.Count() {
		if x.Count() < y.Count() {
			return -1
		}
		return 1
	}
	n := len(x.Tags())
	if len(y.Tags()) < n {
		n = len(y.Tags())
	}
	for i := 0; i < n; i++ {
		if r := c(x.Tags()[i], y.Tags()[i]); r != 0 {
			return r
		}
	}
	if len(x.Tags()) != len(y.Tags()) {
		if len(x.Tags()) < len(y.Tags()) {
			return -1
		}
		return 1
	}
	return 0
}

`)
		tb.WriteString("var values = []pa.T{\n")
		for _, v := range vals {
			fmt.Fprintf(&tb, "\tpa.TBuilder{}.Name(%s).Count(%s).Tags(%s).Build(),\n", v[0], v[1], v[2])
		}
		tb.WriteString("}\n\nfunc TestPrecedence(t *testing.T) {\n\tfailed := false\n\tfor _, x := range values {\n\t\tfor _, y := range values {\n")
		switch class {
		case "Eq":
			tb.WriteString("\t\t\tif got, want := EqPaT().Eqv(x, y), refEq(x, y); got != want {\n\t\t\t\tfmt.Printf(\"LAWFAIL\\tT\\tEq|precedence\\tEqv(%v, %v) = %v, the instance selected by the documented precedence (%s) gives %v\\n\", x, y, got, level, want)\n\t\t\t\tfailed = true\n\t\t\t}\n")
		case "Ord":
			tb.WriteString("\t\t\tif got, want := OrdPaT().Less(x, y), refCmp(x, y) < 0; got != want {\n\t\t\t\tfmt.Printf(\"LAWFAIL\\tT\\tOrd|precedence\\tLess(%v, %v) = %v, the instance selected by the documented precedence (%s) gives %v\\n\", x, y, got, level, want)\n\t\t\t\tfailed = true\n\t\t\t}\n")
		default:
			tb.WriteString("\t\t\tgot := MonoidPaT().Combine(x, y)\n\t\t\tok := got.Name() == combMy(x.Name(), y.Name()) && got.Count() == x.Count()+y.Count() && len(got.Tags()) == len(x.Tags())+len(y.Tags())\n\t\t\tif !ok {\n\t\t\t\tfmt.Printf(\"LAWFAIL\\tT\\tMonoid|precedence\\tCombine(%v, %v) = %v is not field-wise with the instance selected by the documented precedence (%s)\\n\", x, y, got, level)\n\t\t\t\tfailed = true\n\t\t\t}\n")
		}
		tb.WriteString("\t\t}\n\t}\n\tif failed {\n\t\tt.Fatal(\"law failures\")\n\t}\n\tfmt.Println(\"LAWS-OK\")\n}\n")
		_ = m.WriteFile("pw/zz_prec_test.go", tb.String())
		r := m.Go(300*time.Second, "test", "-count=1", "-vet=off", "-v", "./pw")
		if strings.Contains(r.Out, "[build failed]") {
			rec.Failf(rt, "HARNESS|infra|law-test-does-not-compile", "%s\n%s", clip(r.Out, 2000), desc)
		}
		for _, l := range strings.Split(r.Out, "\n") {
			if strings.HasPrefix(l, "LAWFAIL\t") {
				parts := strings.SplitN(l, "\t", 4)
				rec.Failf(rt, "C08|precedence|"+parts[2], "%s\n%s\n--- derive file:\n%s", parts[3], desc, clip(m.ReadFile("pw/pw_derive_generated.go"), 1500))
			}
		}
		if !strings.Contains(r.Out, "LAWS-OK") {
			rec.Failf(rt, "HARNESS|infra|law-test-did-not-run", "%s", clip(r.Out, 1500))
		}
	})
}
