package c07

import (
	"testing"

	"verifharness/gomspec"
	"verifharness/kit"
	"verifharness/scratch"
)

func TestMain(m *testing.M) { kit.MainWith(m, scratch.Cleanup) }

func TestValue(t *testing.T) {
	gomspec.PkgCheck(t, "value/packages", false, "C07", kit.Pick(8, 100))
}
