package c10

import (
	"testing"

	"github.com/csgura/fp"
	"github.com/csgura/fp/as"
	"github.com/csgura/fp/hlist"
	"github.com/csgura/fp/lazy"
	"github.com/csgura/fp/ord"
	"pgregory.net/rapid"
)

type hl3 = hlist.Cons[int, hlist.Cons[int, hlist.Cons[int, hlist.Nil]]]
type hlSI = hlist.Cons[string, hlist.Cons[int, hlist.Nil]]
type hl1 = hlist.Cons[int, hlist.Nil]

func negRef[T any](ref func(a, b T) int) func(a, b T) int {
	return func(a, b T) int { return ref(b, a) }
}

func lessOf[T any](ref func(a, b T) int) fp.LessFunc[T] {
	return func(a, b T) bool { return ref(a, b) < 0 }
}

// magOrd is an element order whose Compare returns magnitudes other than -1/0/+1: ord.FromCompare and
// fp.CompareFunc pass the user comparator's result through, and only its sign is meaningful (the way
// time.Time.Compare, strings.Compare or cmp.Compare based comparators are commonly written: `a.n - b.n`).
// Every combinator must still order its composite lexicographically when built over such an element order.
// Components stay in -6..11, so 5*(a-b) cannot overflow.
func magOrd() fp.Ord[int] {
	return ord.FromCompare(func(a, b int) int { return 5 * (a - b) })
}

// TestOrdOverMagnitude: the combinators over magOrd (added after an independently seeded change that made
// ord.Seq switch on Compare's result being exactly -1 or +1).
func TestOrdOverMagnitude(t *testing.T) {
	dInt := domInt(false)
	gm := magOrd()
	runLaws(t, mk("ord.Seq(FromCompare-magnitude)", ord.Seq(gm), domSliceOf[int, fp.Seq[int]](dInt, 5)))
	runLaws(t, mk("ord.Slice(FromCompare-magnitude)", ord.Slice(gm), domSliceOf[int, []int](dInt, 5)))
	runLaws(t, mk("ord.Option(FromCompare-magnitude)", ord.Option(gm), domOpt(dInt)))
	runLaws(t, mk("ord.Seq(Option(FromCompare-magnitude))", ord.Seq(ord.Option(gm)), domSliceOf[fp.Option[int], fp.Seq[fp.Option[int]]](domOpt(dInt), 4)))
	runLaws(t, mk("ord.Ptr(FromCompare-magnitude)", ord.Ptr(lazy.Done(gm)), domPtr(dInt)))
	runLaws(t, mk("ord.HCons(FromCompare-magnitude x3)", ord.HCons(gm, ord.HCons(gm, ord.HCons(gm, ord.HNil))), domFixed(3,
		func(s []int) hl3 { return hlist.Of3(s[0], s[1], s[2]) },
		func(h hl3) []int {
			return []int{h.Head(), hlist.Tail(h).Head(), hlist.Tail(hlist.Tail(h)).Head()}
		})))
	dKV := domKV()
	runLaws(t, mk("ord.ContraMap(FromCompare-magnitude,key)", ord.ContraMap(gm, kv.Key), dKV))
	runLaws(t, mk("ord.Seq(FromCompare-magnitude.Reversed)", ord.Seq(gm.Reversed()), func() dom[fp.Seq[int]] {
		d := domSliceOf[int, fp.Seq[int]](dInt.withRef(negRef(dInt.ref), ""), 5)
		return d
	}()))
	dSeq := domSliceOf[int, fp.Seq[int]](dInt, 5)
	runLaws(t, mk("ord.Seq(FromCompare-magnitude).Reversed", ord.Seq(gm).Reversed(), dSeq.withRef(negRef(dSeq.ref), "")))
}

func TestOrd(t *testing.T) {
	dInt, dIntE, dStr := domInt(false), domInt(true), domString()
	gi := ord.Given[int]()

	// ---- Given / LessGiven ----
	runLaws(t, mk("ord.Given[int]", ord.Given[int](), dIntE))
	runLaws(t, mk("ord.Given[string]", ord.Given[string](), dStr))
	runLaws(t, mk("ord.Given[float64]", ord.Given[float64](), domFloat()))
	runLaws(t, mk("ord.Given[uint8]", ord.Given[uint8](), domUint8()))
	runLaws(t, mk("fp.LessGiven[int]", fp.LessGiven[int](), dIntE))
	runLaws(t, mk("fp.LessGiven[string]", fp.LessGiven[string](), dStr))

	// ---- Time ----
	runLaws(t, mk("ord.Time", ord.Time, domTime()))

	// ---- Option ----
	runLaws(t, mk("ord.Option(int)", ord.Option(gi), domOpt(dInt)))
	runLaws(t, mk("ord.Option(Option(int))", ord.Option(ord.Option(gi)), domOpt(domOpt(dInt))))
	runLaws(t, mk("ord.Option(string)", ord.Option(ord.Given[string]()), domOpt(dStr)))

	// ---- Seq / Slice ----
	runLaws(t, mk("ord.Seq(int)", ord.Seq(gi), domSliceOf[int, fp.Seq[int]](dInt, 5)))
	runLaws(t, mk("ord.Seq(string)", ord.Seq(ord.Given[string]()), domSliceOf[string, fp.Seq[string]](dStr, 4)))
	runLaws(t, mk("ord.Seq(Option(int))", ord.Seq(ord.Option(gi)), domSliceOf[fp.Option[int], fp.Seq[fp.Option[int]]](domOpt(dInt), 4)))
	runLaws(t, mk("ord.Slice(int)", ord.Slice(gi), domSliceOf[int, []int](dInt, 5)))

	// ---- Ptr ----
	runLaws(t, mk("ord.Ptr(int)", ord.Ptr(lazy.Done(gi)), domPtr(dInt)))
	runLaws(t, mk("ord.Ptr(Option(int))", ord.Ptr(lazy.Call(func() fp.Ord[fp.Option[int]] { return ord.Option(gi) })), domPtr(domOpt(dInt))))

	// ---- HNil / HCons ----
	unit := dom[hlist.Nil]{
		gen:    rapid.Just(hlist.Nil{}),
		near:   func(t *rapid.T, a hlist.Nil) (hlist.Nil, string) { return a, "copy" },
		ref:    func(a, b hlist.Nil) int { return 0 },
		same:   func(a, b hlist.Nil) bool { return true },
		show:   func(hlist.Nil) string { return "HNil" },
		nt:     func(a, b hlist.Nil) bool { return true },
		ntRule: "always (the type has a single value)",
	}
	runLaws(t, mk("ord.HNil", ord.HNil, unit))
	runLaws(t, mk("ord.HCons(int,HNil)", ord.HCons(gi, ord.HNil), domFixed(1,
		func(s []int) hl1 { return hlist.Of1(s[0]) },
		func(h hl1) []int { return []int{h.Head()} })))
	runLaws(t, mk("ord.HCons(int,int,int,HNil)", ord.HCons(gi, ord.HCons(gi, ord.HCons(gi, ord.HNil))), domFixed(3,
		func(s []int) hl3 { return hlist.Of3(s[0], s[1], s[2]) },
		func(h hl3) []int {
			return []int{h.Head(), hlist.Tail(h).Head(), hlist.Tail(hlist.Tail(h)).Head()}
		})))
	runLaws(t, mk("ord.HCons(string,int,HNil)", ord.HCons(ord.Given[string](), ord.HCons(gi, ord.HNil)), domProd2(dStr, dInt,
		func(s string, i int) hlSI { return hlist.Of2(s, i) },
		func(h hlSI) (string, int) { return h.Head(), hlist.Tail(h).Head() })))

	// ---- heterogeneous tuples (Tuple1..21 over int are in tuples_gen_test.go) ----
	runLaws(t, mk("ord.Tuple2(string,int)", ord.Tuple2(ord.Given[string](), gi), domProd2(dStr, dInt,
		func(s string, i int) fp.Tuple2[string, int] { return as.Tuple2(s, i) },
		func(x fp.Tuple2[string, int]) (string, int) { return x.I1, x.I2 })))
	runLaws(t, mk("ord.Tuple2(Option(int),int)", ord.Tuple2(ord.Option(gi), gi), domProd2(domOpt(dInt), dInt,
		func(o fp.Option[int], i int) fp.Tuple2[fp.Option[int], int] { return as.Tuple2(o, i) },
		func(x fp.Tuple2[fp.Option[int], int]) (fp.Option[int], int) { return x.I1, x.I2 })))

	// ---- key based: ContraMap / GivenField / New / FromCompare / CompareFunc / LessFunc / as.Ord ----
	dKV := domKV()
	runLaws(t, mk("ord.ContraMap(Given,key)", ord.ContraMap(gi, kv.Key), dKV))
	runLaws(t, mk("ord.ContraMap(Option,key)", ord.ContraMap(ord.Option(gi), func(r kv) fp.Option[int] {
		if r.key <= 0 {
			return fp.Option[int]{}
		}
		return fp.Some(r.key)
	}), dKV.withRef(func(a, b kv) int { return cmpInt(max(a.key, 0), max(b.key, 0)) }, "")))
	runLaws(t, mk("ord.GivenField(key)", ord.GivenField(kv.Key), dKV))
	runLaws(t, mk("ord.New(eqKey,lessKey)", ord.New[kv](fp.EqFunc[kv](func(a, b kv) bool { return a.key == b.key }), func(a, b kv) bool { return a.key < b.key }), dKV))
	type pair = fp.Tuple2[int, int]
	dPair := domFixed(2, func(s []int) pair { return as.Tuple2(s[0], s[1]) }, func(p pair) []int { return []int{p.I1, p.I2} })
	runLaws(t, mk("ord.New(eqPair,lessPair)", ord.New[pair](fp.EqGiven[pair](), func(a, b pair) bool {
		if a.I1 != b.I1 {
			return a.I1 < b.I1
		}
		return a.I2 < b.I2
	}), dPair))
	runLaws(t, mk("ord.FromCompare(a-b)", ord.FromCompare(func(a, b int) int { return a - b }), dInt)) // small ints only: a-b cannot overflow
	runLaws(t, mk("ord.FromCompare(key*7)", ord.FromCompare(func(a, b kv) int { return 7 * (a.key - b.key) }), dKV))
	runLaws(t, mk("fp.CompareFunc(key)", fp.CompareFunc[kv](func(a, b kv) int { return a.key - b.key }), dKV))
	runLaws(t, mk("fp.LessFunc(key)", fp.LessFunc[kv](func(a, b kv) bool { return a.key < b.key }), dKV))
	runLaws(t, mk("fp.LessFunc(int)", fp.LessFunc[int](func(a, b int) bool { return a < b }), dIntE))
	runLaws(t, mk("as.Ord(key)", as.Ord(func(a, b kv) bool { return a.key < b.key }), dKV))
	runLaws(t, mk("as.Ord(string)", as.Ord(func(a, b string) bool { return a < b }), dStr))

	// ---- Reversed: the result is again an Ord; full battery against the flipped reference ----
	runLaws(t, mk("ord.Given[int].Reversed", ord.Given[int]().Reversed(), dIntE.withRef(negRef(dIntE.ref), "")))
	runLaws(t, mk("ord.Given[int].Reversed.Reversed", ord.Given[int]().Reversed().Reversed(), dIntE))
	runLaws(t, mk("as.Ord(key).Reversed", as.Ord(func(a, b kv) bool { return a.key < b.key }).Reversed(), dKV.withRef(negRef(dKV.ref), "")))
	dOpt := domOpt(dInt)
	runLaws(t, mk("ord.Option(int).Reversed", ord.Option(gi).Reversed(), dOpt.withRef(negRef(dOpt.ref), "")))
	runLaws(t, mk("ord.Tuple2(int,int).Reversed", ord.Tuple2(gi, gi).Reversed(), dPair.withRef(negRef(dPair.ref), "")))
	dTime := domTime()
	runLaws(t, mk("ord.Time.Reversed", ord.Time.Reversed(), dTime.withRef(negRef(dTime.ref), "")))
	dPtr := domPtr(dInt)
	runLaws(t, mk("ord.Ptr(int).Reversed", ord.Ptr(lazy.Done(gi)).Reversed(), dPtr.withRef(negRef(dPtr.ref), "")))

	// ---- ThenComparing: primaries and secondaries of both implementation kinds
	// (CompareFunc based: GivenField/ContraMap/New/FromCompare; LessFunc based: as.Ord, fp.LessFunc);
	// reference = lexicographic on the compared fields ----
	byA := func(x, y abc) int { return cmpInt(x.a, y.a) }
	byB := func(x, y abc) int { return cmpInt(x.b, y.b) }
	byC := func(x, y abc) int { return cmpInt(x.c, y.c) }
	chain := func(fs ...func(x, y abc) int) func(x, y abc) int {
		return func(x, y abc) int {
			for _, f := range fs {
				if c := f(x, y); c != 0 {
					return c
				}
			}
			return 0
		}
	}
	tieRule := "a and b are different records that tie in the primary field"
	cfA, cfB, cfC := ord.GivenField(abc.A), ord.GivenField(abc.B), ord.GivenField(abc.C)
	lfA, lfB := as.Ord(lessOf(byA)), fp.Ord[abc](lessOf(byB))
	runLaws(t, mk("GivenField(a).ThenComparing(GivenField(b))", cfA.ThenComparing(cfB), domABC(chain(byA, byB), tieRule)))
	runLaws(t, mk("GivenField(a).ThenComparing(LessFunc(b))", cfA.ThenComparing(lfB), domABC(chain(byA, byB), tieRule)))
	runLaws(t, mk("as.Ord(a).ThenComparing(GivenField(b))", lfA.ThenComparing(cfB), domABC(chain(byA, byB), tieRule)))
	runLaws(t, mk("as.Ord(a).ThenComparing(LessFunc(b))", lfA.ThenComparing(lfB), domABC(chain(byA, byB), tieRule)))
	runLaws(t, mk("GivenField(a).ThenComparing(GivenField(b).Reversed)", cfA.ThenComparing(cfB.Reversed()), domABC(chain(byA, negRef(byB)), tieRule)))
	runLaws(t, mk("as.Ord(a).Reversed.ThenComparing(LessFunc(b))", lfA.Reversed().ThenComparing(lfB), domABC(chain(negRef(byA), byB), tieRule)))
	runLaws(t, mk("GivenField(a).ThenComparing(b).ThenComparing(c)", cfA.ThenComparing(cfB).ThenComparing(cfC), domABC(chain(byA, byB, byC), tieRule)))
	runLaws(t, mk("GivenField(a).ThenComparing(b.ThenComparing(c))", cfA.ThenComparing(cfB.ThenComparing(cfC)), domABC(chain(byA, byB, byC), tieRule)))
	runLaws(t, mk("(a.ThenComparing(b)).Reversed", cfA.ThenComparing(cfB).Reversed(), domABC(negRef(chain(byA, byB)), tieRule)))
	runLaws(t, mk("ord.New(a).ThenComparing(FromCompare(c))",
		ord.New[abc](fp.EqFunc[abc](func(x, y abc) bool { return x.a == y.a }), lessOf(byA)).ThenComparing(ord.FromCompare(func(x, y abc) int { return 3 * (x.c - y.c) })),
		domABC(chain(byA, byC), tieRule)))
	// The natural way to write "by age, then by name" over records: ord.New(eq.Given[rec](), lessByA) as the
	// primary - its Eq (==) is finer than the ties of its Less. The primary alone is not the subject (its
	// Eqv is the user's); the COMPOSITE primary.ThenComparing(secondary) must consult the secondary exactly
	// on the primary's ties. (Seeded change: ord.New's Compare answered 1 for every non-Eqv pair.)
	runLaws(t, mk("ord.New(eq.Given,a).ThenComparing(GivenField(c))",
		ord.New[abc](fp.EqGiven[abc](), lessOf(byA)).ThenComparing(cfC),
		domABC(chain(byA, byC), tieRule)))
	runLaws(t, mk("ord.New(eq.Given,a).ThenComparing(b).ThenComparing(c)",
		ord.New[abc](fp.EqGiven[abc](), lessOf(byA)).ThenComparing(lfB).ThenComparing(cfC),
		domABC(chain(byA, byB, byC), tieRule)))
	runLaws(t, mk("ord.Option(int).ThenComparing(const0)", ord.Option(gi).ThenComparing(refOrd[fp.Option[int]]{func(a, b fp.Option[int]) int { return 0 }}), dOpt))
}
