// Package c10 checks property C10: every Ord instance / combinator is a strict
// total order that agrees with an independently written reference order, and
// Sort/Min/Max on Seq, Iterator and List return an ordered permutation / a
// least / greatest element.
//
// Files:
//
//	c10_test.go        law battery (this file)
//	doms_test.go       value domains: generator, near-copy mutator, reference order
//	instances_test.go  catalogue of instances under test
//	tuples_gen_test.go GENERATED (go run ./c10/gen): ord.Tuple1..21
//	sort_test.go       Sort / Min / Max on seq, iterator, list
package c10

import (
	"sync"
	"flag"
	"fmt"
	"sort"
	"strconv"
	"strings"
	"testing"

	"github.com/csgura/fp"
	"pgregory.net/rapid"

	"verifharness/kit"
)

// baseChecks is the per-shard case count handed to the binary (-rapid.checks);
// it is only used to turn an absolute case target into a kit.Opt.Weight.
var baseChecks = 100

func TestMain(m *testing.M) {
	flag.Parse()
	if f := flag.Lookup("rapid.checks"); f != nil {
		if n, err := strconv.Atoi(f.Value.String()); err == nil && n > 0 {
			baseChecks = n
		}
	}
	kit.Main(m)
}

// ---- a fully harness-side Ord (never touches fp.CompareFunc / fp.LessFunc) ------

type refOrd[T any] struct{ cmp func(a, b T) int }

func (r refOrd[T]) Eqv(a, b T) bool    { return r.cmp(a, b) == 0 }
func (r refOrd[T]) Compare(a, b T) int { return sign(r.cmp(a, b)) }
func (r refOrd[T]) Less(a, b T) bool   { return r.cmp(a, b) < 0 }
func (r refOrd[T]) LessEq(a, b T) bool { return r.cmp(a, b) <= 0 }
func (r refOrd[T]) Max(a, b T) T {
	if r.cmp(a, b) < 0 {
		return b
	}
	return a
}
func (r refOrd[T]) Min(a, b T) T {
	if r.cmp(b, a) < 0 {
		return b
	}
	return a
}
func (r refOrd[T]) ThenComparing(other fp.Ord[T]) fp.Ord[T] {
	return refOrd[T]{func(a, b T) int {
		if c := r.cmp(a, b); c != 0 {
			return c
		}
		return other.Compare(a, b)
	}}
}
func (r refOrd[T]) Reversed() fp.Ord[T] {
	return refOrd[T]{func(a, b T) int { return r.cmp(b, a) }}
}

func sign(x int) int {
	switch {
	case x < 0:
		return -1
	case x > 0:
		return 1
	}
	return 0
}

// ---- domain + instance -----------------------------------------------------------

// dom is a value domain of type T: a generator, a near-copy mutator (copy /
// change one component / truncate / extend ...), an independently written
// reference order, identity (for "Min/Max return one of the arguments"), a
// canonical printer and the rule that makes a pair non-trivial.
type dom[T any] struct {
	gen    *rapid.Generator[T]
	near   func(t *rapid.T, a T) (T, string) // derived value and the class of derivation
	ref    func(a, b T) int                  // -1 / 0 / +1
	same   func(a, b T) bool
	show   func(T) string
	nt     func(a, b T) bool
	ntRule string
}

type inst[T any] struct {
	name   string
	o      fp.Ord[T]
	d      dom[T]
	weight float64 // kit.Opt.Weight of every sub-check of this instance (0 = full case count)
}

func mk[T any](name string, o fp.Ord[T], d dom[T]) inst[T] { return inst[T]{name: name, o: o, d: d} }

func (in inst[T]) weighted(w float64) inst[T] { in.weight = w; return in }

// tupleWeight: one comparison by ord.TupleN costs time exponential in the
// position of the first differing component (each level evaluates the order of
// its tail up to three times: once for Eqv and once per direction of Less);
// measured about 0.115 s per case at arity 21 with uniformly chosen positions,
// halving with each arity below. Arities >= 12 therefore get an absolute case
// target per shard that keeps a sub-check near 0.15 s (quick) / 5 s (thorough).
func tupleWeight(arity int) float64 {
	if arity < 12 {
		return 0
	}
	// the cost is that of the deepest first difference explored (see firstDiffCap)
	arity = min(arity, firstDiffCap()+1)
	cost := 0.115
	for n := 21; n > arity; n-- {
		cost /= 2
	}
	budget := 0.15
	if kit.Thorough() {
		budget = 5
	}
	w := budget / cost / float64(baseChecks)
	if w >= 1 {
		return 0
	}
	return w
}

// withRef replaces the reference order (used for Reversed / ThenComparing / key based instances).
func (d dom[T]) withRef(ref func(a, b T) int, ntRule string) dom[T] {
	d.ref = ref
	d.nt = func(a, b T) bool { return ref(a, b) != 0 }
	if ntRule != "" {
		d.ntRule = ntRule
	} else {
		d.ntRule = "a and b differ by the reference order"
	}
	return d
}

// salt shifts the random stream: all sub-checks of a shard run with the same
// rapid seed, so without it the laws of one instance would all see the very
// same sequence of pairs.
func salt(rt *rapid.T, n int) {
	for i := 0; i < n; i++ {
		rapid.Uint64().Draw(rt, "salt")
	}
}

func drawPair[T any](rt *rapid.T, d dom[T], rec *kit.Rec, law int) (a, b T) {
	salt(rt, law)
	a = d.gen.Draw(rt, "a")
	k := rapid.IntRange(0, 9).Draw(rt, "bkind")
	if k < 7 {
		var cls string
		b, cls = d.near(rt, a)
		rec.Label("b=" + cls)
	} else {
		b = d.gen.Draw(rt, "b")
		rec.Label("b=fresh")
	}
	if rapid.Bool().Draw(rt, "swap") {
		a, b = b, a
	}
	switch d.ref(a, b) {
	case -1:
		rec.Label("ref:a<b")
	case 0:
		rec.Label("ref:a=b")
	default:
		rec.Label("ref:a>b")
	}
	return
}

func drawTriple[T any](rt *rapid.T, d dom[T], rec *kit.Rec) [3]T {
	var v [3]T
	v[0] = d.gen.Draw(rt, "a")
	if rapid.IntRange(0, 9).Draw(rt, "bkind") < 7 {
		v[1], _ = d.near(rt, v[0])
	} else {
		v[1] = d.gen.Draw(rt, "b")
	}
	switch k := rapid.IntRange(0, 9).Draw(rt, "ckind"); {
	case k < 4:
		v[2], _ = d.near(rt, v[1])
	case k < 7:
		v[2], _ = d.near(rt, v[0])
	default:
		v[2] = d.gen.Draw(rt, "c")
	}
	if rapid.Bool().Draw(rt, "chain") {
		// ordered chain by the reference
		s := v[:]
		sort.SliceStable(s, func(i, j int) bool { return d.ref(s[i], s[j]) < 0 })
		rec.Label("triple=ref-sorted")
	} else {
		rec.Label("triple=raw")
	}
	return v
}

var perms3 = [6][3]int{{0, 1, 2}, {0, 2, 1}, {1, 0, 2}, {1, 2, 0}, {2, 0, 1}, {2, 1, 0}}

// runLaws registers the seven independent sub-checks of one instance.
func runLaws[T any](t *testing.T, in inst[T]) {
	t.Helper()
	d := in.d
	sig := func(law string) string { return "C10|" + in.name + "|" + law }
	opt := kit.Opt{Weight: in.weight, MinChecks: 1}
	pairRule := "pair (a,b): a from the instance generator, b = near-copy of a (copy / one component changed / two changed in opposite directions / truncated / extended; 70%) or fresh (30%), order swapped at random; non-trivial iff " + d.ntRule + "; distinct by printed pair"
	pd := func(a, b T) string { return d.show(a) + " | " + d.show(b) }

	kit.Check(t, in.name+"/trichotomy", pairRule+"; law: exactly one of Less(a,b), Less(b,a), Eqv(a,b); Eqv symmetric; Less irreflexive, Eqv reflexive", opt, func(rt *rapid.T, rec *kit.Rec) {
		a, b := drawPair(rt, d, rec, 0)
		rec.Case(d.nt(a, b), pd(a, b))
		var lab, lba, e, eba, laa, eaa bool
		rec.Guard(rt, sig("trichotomy"), func() {
			lab, lba, e, eba = in.o.Less(a, b), in.o.Less(b, a), in.o.Eqv(a, b), in.o.Eqv(b, a)
			laa, eaa = in.o.Less(a, a), in.o.Eqv(a, a)
		})
		n := 0
		for _, x := range []bool{lab, lba, e} {
			if x {
				n++
			}
		}
		if n != 1 {
			rec.Failf(rt, sig("trichotomy"), "a=%s b=%s: Less(a,b)=%v Less(b,a)=%v Eqv(a,b)=%v; exactly one must hold", d.show(a), d.show(b), lab, lba, e)
		}
		if e != eba {
			rec.Failf(rt, sig("trichotomy"), "a=%s b=%s: Eqv(a,b)=%v but Eqv(b,a)=%v", d.show(a), d.show(b), e, eba)
		}
		if laa || !eaa {
			rec.Failf(rt, sig("trichotomy"), "a=%s: Less(a,a)=%v Eqv(a,a)=%v", d.show(a), laa, eaa)
		}
	})

	kit.Check(t, in.name+"/transitive", "triple: a from the generator, b near-copy of a or fresh, c near-copy of b / of a / fresh; half of the triples sorted into a chain by the reference order; law checked on all 6 arrangements (x,y,z): Less(x,y) && Less(y,z) => Less(x,z), and Eqv(x,y) && Eqv(y,z) => Eqv(x,z); non-trivial iff the three values are pairwise different by the reference order; distinct by printed triple", opt, func(rt *rapid.T, rec *kit.Rec) {
		v := drawTriple(rt, d, rec)
		rec.Case(d.ref(v[0], v[1]) != 0 && d.ref(v[1], v[2]) != 0 && d.ref(v[0], v[2]) != 0, d.show(v[0])+" | "+d.show(v[1])+" | "+d.show(v[2]))
		var less, eqv [3][3]bool
		rec.Guard(rt, sig("transitive"), func() {
			for i := 0; i < 3; i++ {
				for j := 0; j < 3; j++ {
					less[i][j] = in.o.Less(v[i], v[j])
					eqv[i][j] = in.o.Eqv(v[i], v[j])
				}
			}
		})
		for _, p := range perms3 {
			x, y, z := p[0], p[1], p[2]
			if less[x][y] && less[y][z] && !less[x][z] {
				rec.Failf(rt, sig("transitive"), "x=%s y=%s z=%s: Less(x,y) and Less(y,z) but not Less(x,z)", d.show(v[x]), d.show(v[y]), d.show(v[z]))
			}
			if eqv[x][y] && eqv[y][z] && !eqv[x][z] {
				rec.Failf(rt, sig("transitive"), "x=%s y=%s z=%s: Eqv(x,y) and Eqv(y,z) but not Eqv(x,z)", d.show(v[x]), d.show(v[y]), d.show(v[z]))
			}
		}
	})

	kit.Check(t, in.name+"/compare", pairRule+"; law: Compare(a,b)<0 iff Less(a,b), ==0 iff Eqv(a,b), >0 iff Less(b,a); LessEq(a,b) = Less(a,b) || Eqv(a,b)", opt, func(rt *rapid.T, rec *kit.Rec) {
		a, b := drawPair(rt, d, rec, 1)
		rec.Case(d.nt(a, b), pd(a, b))
		var c int
		var lab, lba, e, le bool
		rec.Guard(rt, sig("compare"), func() {
			c, lab, lba, e, le = in.o.Compare(a, b), in.o.Less(a, b), in.o.Less(b, a), in.o.Eqv(a, b), in.o.LessEq(a, b)
		})
		if (c < 0) != lab || (c == 0) != e || (c > 0) != lba {
			rec.Failf(rt, sig("compare"), "a=%s b=%s: Compare(a,b)=%d but Less(a,b)=%v Eqv(a,b)=%v Less(b,a)=%v", d.show(a), d.show(b), c, lab, e, lba)
		}
		if le != (lab || e) {
			rec.Failf(rt, sig("compare"), "a=%s b=%s: LessEq(a,b)=%v but Less(a,b)=%v Eqv(a,b)=%v", d.show(a), d.show(b), le, lab, e)
		}
	})

	kit.Check(t, in.name+"/minmax", pairRule+"; law: Min(a,b) and Max(a,b) are one of the two arguments; neither argument is Less than Min; Max is Less than neither argument (which of two equivalent arguments is returned is not demanded)", opt, func(rt *rapid.T, rec *kit.Rec) {
		a, b := drawPair(rt, d, rec, 2)
		rec.Case(d.nt(a, b), pd(a, b))
		var mn, mx T
		var aLmn, bLmn, mxLa, mxLb bool
		rec.Guard(rt, sig("minmax"), func() {
			mn, mx = in.o.Min(a, b), in.o.Max(a, b)
			aLmn, bLmn = in.o.Less(a, mn), in.o.Less(b, mn)
			mxLa, mxLb = in.o.Less(mx, a), in.o.Less(mx, b)
		})
		if !d.same(mn, a) && !d.same(mn, b) {
			rec.Failf(rt, sig("minmax"), "Min(%s,%s)=%s is neither argument", d.show(a), d.show(b), d.show(mn))
		}
		if !d.same(mx, a) && !d.same(mx, b) {
			rec.Failf(rt, sig("minmax"), "Max(%s,%s)=%s is neither argument", d.show(a), d.show(b), d.show(mx))
		}
		if aLmn || bLmn {
			rec.Failf(rt, sig("minmax"), "Min(%s,%s)=%s but an argument is Less than it (Less(a,min)=%v Less(b,min)=%v)", d.show(a), d.show(b), d.show(mn), aLmn, bLmn)
		}
		if mxLa || mxLb {
			rec.Failf(rt, sig("minmax"), "Max(%s,%s)=%s but it is Less than an argument (Less(max,a)=%v Less(max,b)=%v)", d.show(a), d.show(b), d.show(mx), mxLa, mxLb)
		}
	})

	kit.Check(t, in.name+"/reference", pairRule+"; law: Less/Eqv/sign(Compare) equal the independently written reference order (lexicographic; None and nil first; Time by instant; key only for ContraMap style instances)", opt, func(rt *rapid.T, rec *kit.Rec) {
		a, b := drawPair(rt, d, rec, 3)
		rec.Case(d.nt(a, b), pd(a, b))
		want := d.ref(a, b)
		var c int
		var lab, lba, e bool
		rec.Guard(rt, sig("reference"), func() {
			c, lab, lba, e = in.o.Compare(a, b), in.o.Less(a, b), in.o.Less(b, a), in.o.Eqv(a, b)
		})
		if lab != (want < 0) || lba != (want > 0) || e != (want == 0) || sign(c) != want {
			rec.Failf(rt, sig("reference"), "a=%s b=%s: reference order says %d; Less(a,b)=%v Less(b,a)=%v Eqv(a,b)=%v Compare(a,b)=%d", d.show(a), d.show(b), want, lab, lba, e, c)
		}
	})

	kit.Check(t, in.name+"/reversed", pairRule+"; law: r := o.Reversed(): r.Less(a,b) = o.Less(b,a), sign(r.Compare(a,b)) = -sign(o.Compare(a,b)), r.Eqv(a,b) = o.Eqv(a,b)", opt, func(rt *rapid.T, rec *kit.Rec) {
		a, b := drawPair(rt, d, rec, 4)
		rec.Case(d.nt(a, b), pd(a, b))
		var rl, re, lba, e bool
		var rc, c int
		rec.Guard(rt, sig("reversed"), func() {
			r := in.o.Reversed()
			rl, rc, re = r.Less(a, b), r.Compare(a, b), r.Eqv(a, b)
			lba, c, e = in.o.Less(b, a), in.o.Compare(a, b), in.o.Eqv(a, b)
		})
		if rl != lba || sign(rc) != -sign(c) || re != e {
			rec.Failf(rt, sig("reversed"), "a=%s b=%s: Reversed: Less(a,b)=%v Compare(a,b)=%d Eqv(a,b)=%v; original: Less(b,a)=%v Compare(a,b)=%d Eqv(a,b)=%v", d.show(a), d.show(b), rl, rc, re, lba, c, e)
		}
	})

	// secondary: a harness-side total order, the *reverse* of the byte order of
	// the printed form; it breaks ties between values that the instance identifies
	// but that print differently (equal keys with different ids, same instant in
	// different zones, -0/+0) and mostly disagrees with the primary on non-ties.
	secCmp := func(a, b T) int { return strings.Compare(d.show(b), d.show(a)) }
	kit.Check(t, in.name+"/thenComparing", pairRule+" (override of non-trivial: the reference ties a,b and their printed forms differ, or the reference does not tie them and the secondary orders them the other way); law: tc := o.ThenComparing(sec), sec = harness order (reversed byte order of the printed form): if !o.Eqv(a,b) then tc agrees with o (Less, Eqv, sign of Compare) else tc agrees with sec", opt, func(rt *rapid.T, rec *kit.Rec) {
		a, b := drawPair(rt, d, rec, 5)
		sc := secCmp(a, b)
		r := d.ref(a, b)
		rec.Case((r == 0 && sc != 0) || (r != 0 && sc == -r), pd(a, b))
		var tl, te, ol, oe bool
		var tc, oc int
		rec.Guard(rt, sig("thenComparing"), func() {
			x := in.o.ThenComparing(refOrd[T]{secCmp})
			tl, tc, te = x.Less(a, b), x.Compare(a, b), x.Eqv(a, b)
			ol, oc, oe = in.o.Less(a, b), in.o.Compare(a, b), in.o.Eqv(a, b)
		})
		if !oe {
			if tl != ol || sign(tc) != sign(oc) || te {
				rec.Failf(rt, sig("thenComparing"), "a=%s b=%s: primary does not tie (Less=%v Compare=%d) but ThenComparing gives Less=%v Compare=%d Eqv=%v", d.show(a), d.show(b), ol, oc, tl, tc, te)
			}
		} else {
			rec.Label("primary-tie")
			if tl != (sc < 0) || sign(tc) != sc || te != (sc == 0) {
				rec.Failf(rt, sig("thenComparing"), "a=%s b=%s: primary ties, secondary says %d, but ThenComparing gives Less=%v Compare=%d Eqv=%v", d.show(a), d.show(b), sc, tl, tc, te)
			}
		}
	})

	// An instance is a value shared by whoever sorts or compares with it: Compare and Less must give the
	// same answers when several goroutines use the instance at once (no scratch state shared between
	// calls). Real goroutines: a miss proves nothing, a mismatch with the sequential answers is a violation.
	// Skipped for the instances with a reduced case budget (high tuple arities are exponentially slow).
	if in.weight == 0 || in.weight >= 1 {
		kit.Check(t, in.name+"/concurrent", "4 pairs (as in the other laws); sign(Compare) and Less computed sequentially, then G in 2..8 goroutines released together recompute them 100 times each in rotating order; every answer must equal the sequential one; non-trivial iff G >= 4; distinct by (G, printed pairs)", kit.Opt{Weight: 0.1, MinChecks: 1}, func(rt *rapid.T, rec *kit.Rec) {
			G := rapid.IntRange(2, 8).Draw(rt, "G")
			const n = 4
			var as, bs [n]T
			desc := ""
			for i := 0; i < n; i++ {
				as[i], bs[i] = drawPair(rt, d, rec, 6)
				desc += pd(as[i], bs[i]) + " ; "
			}
			rec.Case(G >= 4, fmt.Sprintf("G=%d %s", G, desc))
			var wc [n]int
			var wl [n]bool
			rec.Guard(rt, sig("concurrent"), func() {
				for i := 0; i < n; i++ {
					wc[i], wl[i] = sign(in.o.Compare(as[i], bs[i])), in.o.Less(as[i], bs[i])
				}
			})
			bad := make([]string, G)
			start := make(chan struct{})
			var wg sync.WaitGroup
			for g := 0; g < G; g++ {
				wg.Add(1)
				go func(g int) {
					defer wg.Done()
					defer func() {
						if r := recover(); r != nil && bad[g] == "" {
							bad[g] = fmt.Sprintf("goroutine %d panicked: %v", g, r)
						}
					}()
					<-start
					for k := 0; k < 100; k++ {
						i := (g + k) % n
						if c, l := sign(in.o.Compare(as[i], bs[i])), in.o.Less(as[i], bs[i]); (c != wc[i] || l != wl[i]) && bad[g] == "" {
							bad[g] = fmt.Sprintf("goroutine %d of %d: %s: sign(Compare)=%d Less=%v while other goroutines were comparing; sequentially %d, %v", g, G, pd(as[i], bs[i]), c, l, wc[i], wl[i])
						}
					}
				}(g)
			}
			close(start)
			wg.Wait()
			for _, m := range bad {
				if m != "" {
					rec.Failf(rt, sig("concurrent"), "%s", m)
				}
			}
		})
	}
}

func sprint[T any](v T) string { return fmt.Sprintf("%#v", v) }
