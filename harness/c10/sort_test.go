package c10

import (
	"fmt"
	"sort"
	"testing"

	"github.com/csgura/fp"
	"github.com/csgura/fp/as"
	"github.com/csgura/fp/iterator"
	"github.com/csgura/fp/list"
	"github.com/csgura/fp/option"
	"github.com/csgura/fp/ord"
	"github.com/csgura/fp/seq"
	"pgregory.net/rapid"

	"verifharness/kit"
)

// ordKind: an Ord on kv handed to Sort/Min/Max together with its reference order.
type ordKind struct {
	name string
	o    fp.Ord[kv]
	ref  func(a, b kv) int
}

func ordKinds() []ordKind {
	byKey := func(a, b kv) int { return cmpInt(a.key, b.key) }
	byKeyID := func(a, b kv) int {
		if c := cmpInt(a.key, b.key); c != 0 {
			return c
		}
		return cmpInt(a.id, b.id)
	}
	return []ordKind{
		{"harness-order(key)", refOrd[kv]{byKey}, byKey}, // no library Ord involved at all
		{"harness-order(key)", refOrd[kv]{byKey}, byKey},
		{"ord.ContraMap(Given,key)", ord.ContraMap(ord.Given[int](), kv.Key), byKey},
		{"ord.New(eqKey,lessKey)", ord.New[kv](fp.EqFunc[kv](func(a, b kv) bool { return a.key == b.key }), func(a, b kv) bool { return a.key < b.key }), byKey},
		{"as.Ord(key)", as.Ord(func(a, b kv) bool { return a.key < b.key }), byKey},
		{"ord.GivenField(key).Reversed", ord.GivenField(kv.Key).Reversed(), negRef(byKey)},
		{"GivenField(key).ThenComparing(GivenField(id))", ord.GivenField(kv.Key).ThenComparing(ord.GivenField(func(r kv) int { return r.id })), byKeyID},
	}
}

// container: one way of presenting the element sequence xs to Sort/Min/Max.
// Every function receives a private copy of xs.
type container struct {
	name string
	sort func(xs []kv, o fp.Ord[kv]) fp.Seq[kv]
	min  func(xs []kv, o fp.Ord[kv]) fp.Option[kv]
	max  func(xs []kv, o fp.Ord[kv]) fp.Option[kv]
}

func consList(xs []kv) fp.List[kv] {
	var l fp.List[kv] = list.Empty[kv]()
	for i := len(xs) - 1; i >= 0; i-- {
		l = list.Apply(xs[i], l)
	}
	return l
}

func lazyList(xs []kv) fp.List[kv] {
	return list.Generate(func(i int) fp.Option[kv] {
		if i < len(xs) {
			return option.Some(xs[i])
		}
		return option.None[kv]()
	})
}

func containers() []container {
	viaList := func(name string, mkL func([]kv) fp.List[kv]) container {
		return container{name,
			func(xs []kv, o fp.Ord[kv]) fp.Seq[kv] { return list.Sort(mkL(clone(xs)), o) },
			func(xs []kv, o fp.Ord[kv]) fp.Option[kv] { return list.Min(mkL(clone(xs)), o) },
			func(xs []kv, o fp.Ord[kv]) fp.Option[kv] { return list.Max(mkL(clone(xs)), o) },
		}
	}
	return []container{
		{"seq",
			func(xs []kv, o fp.Ord[kv]) fp.Seq[kv] { return seq.Sort(fp.Seq[kv](clone(xs)), o) },
			func(xs []kv, o fp.Ord[kv]) fp.Option[kv] { return seq.Min(fp.Seq[kv](clone(xs)), o) },
			func(xs []kv, o fp.Ord[kv]) fp.Option[kv] { return seq.Max(fp.Seq[kv](clone(xs)), o) },
		},
		{"iterator",
			func(xs []kv, o fp.Ord[kv]) fp.Seq[kv] { return iterator.Sort(iterator.FromSeq(clone(xs)), o) },
			func(xs []kv, o fp.Ord[kv]) fp.Option[kv] { return iterator.Min(iterator.FromSeq(clone(xs)), o) },
			func(xs []kv, o fp.Ord[kv]) fp.Option[kv] { return iterator.Max(iterator.FromSeq(clone(xs)), o) },
		},
		{"iterator(FromList)",
			func(xs []kv, o fp.Ord[kv]) fp.Seq[kv] { return iterator.Sort(iterator.FromList(consList(clone(xs))), o) },
			func(xs []kv, o fp.Ord[kv]) fp.Option[kv] { return iterator.Min(iterator.FromList(consList(clone(xs))), o) },
			func(xs []kv, o fp.Ord[kv]) fp.Option[kv] { return iterator.Max(iterator.FromList(consList(clone(xs))), o) },
		},
		viaList("list(Of)", func(xs []kv) fp.List[kv] { return list.Of(xs...) }),
		viaList("list(cons)", consList),
		viaList("list(Generate)", lazyList),
	}
}

type sortCase struct {
	xs []kv
	k  ordKind
	ki int
}

func (c sortCase) desc() string { return fmt.Sprintf("ord#%d %s", c.ki, showKVs(c.xs)) }

func showKVs(xs []kv) string {
	s := "["
	for i, x := range xs {
		if i > 0 {
			s += " "
		}
		s += fmt.Sprintf("%d#%d", x.key, x.id)
	}
	return s + "]"
}

func drawSortCase(rt *rapid.T, rec *kit.Rec, kinds []ordKind) sortCase {
	// nothing bounds the length of a sorted sequence, and sorting algorithms switch strategy with the length
	// (the standard library's insertion sort handles up to 12 elements): a quarter of the cases are longer
	maxLen := kit.Pick(12, 40)
	switch rapid.IntRange(0, 11).Draw(rt, "sizeClass") {
	case 0, 1:
		maxLen = 60
	case 2:
		maxLen = 300
	}
	var xs []kv
	switch shape := rapid.IntRange(0, 9).Draw(rt, "shape"); {
	case shape == 0:
		n := rapid.IntRange(0, 1).Draw(rt, "n01") // empty / singleton
		if n == 1 {
			xs = []kv{{rapid.IntRange(0, 4).Draw(rt, "key"), 0}}
		} else if rapid.Bool().Draw(rt, "nil") {
			xs = nil
		} else {
			xs = []kv{}
		}
	case shape <= 2:
		// very many duplicates: two keys, two ids
		n := rapid.IntRange(2, maxLen).Draw(rt, "n")
		for i := 0; i < n; i++ {
			xs = append(xs, kv{rapid.IntRange(0, 1).Draw(rt, "key"), rapid.IntRange(0, 1).Draw(rt, "id")})
		}
	case shape == 3:
		// descending keys, unique ids (all inversions)
		n := rapid.IntRange(2, maxLen).Draw(rt, "n")
		for i := 0; i < n; i++ {
			xs = append(xs, kv{(n - i) / 2, i})
		}
	default:
		n := rapid.IntRange(0, maxLen).Draw(rt, "n")
		for i := 0; i < n; i++ {
			xs = append(xs, kv{rapid.IntRange(0, 4).Draw(rt, "key"), rapid.IntRange(0, 3).Draw(rt, "id")})
		}
	}
	ki := rapid.IntRange(0, len(kinds)-1).Draw(rt, "ord")
	rec.Label("ord=" + kinds[ki].name)
	switch {
	case len(xs) == 0:
		rec.Label("len=0")
	case len(xs) == 1:
		rec.Label("len=1")
	default:
		rec.Label("len>=2")
	}
	return sortCase{xs, kinds[ki], ki}
}

// non-trivial sort input: at least one pair of reference-equal elements and at least one inversion.
func sortNontrivial(c sortCase) bool {
	dup, inv := false, false
	for i := range c.xs {
		for j := i + 1; j < len(c.xs); j++ {
			r := c.k.ref(c.xs[i], c.xs[j])
			if r == 0 {
				dup = true
			}
			if r > 0 {
				inv = true
			}
		}
	}
	return dup && inv
}

func multiset(xs []kv) map[kv]int {
	m := map[kv]int{}
	for _, x := range xs {
		m[x]++
	}
	return m
}

// multisetDiff lists, in a deterministic order, the elements whose multiplicity differs.
func multisetDiff(in, out []kv) []string {
	mi, mo := multiset(in), multiset(out)
	keys := map[kv]bool{}
	for k := range mi {
		keys[k] = true
	}
	for k := range mo {
		keys[k] = true
	}
	ks := make([]kv, 0, len(keys))
	for k := range keys {
		ks = append(ks, k)
	}
	sort.Slice(ks, func(i, j int) bool {
		if ks[i].key != ks[j].key {
			return ks[i].key < ks[j].key
		}
		return ks[i].id < ks[j].id
	})
	var d []string
	for _, k := range ks {
		if mi[k] != mo[k] {
			d = append(d, fmt.Sprintf("%d#%d: %d in input, %d in output", k.key, k.id, mi[k], mo[k]))
		}
	}
	return d
}

func TestSort(t *testing.T) {
	kinds := ordKinds()
	base := "input xs of records {key,id} (len 0..12 quick / 0..40 thorough, in a quarter of the cases up to 60 or up to 300; shapes: empty/singleton, two keys x two ids, descending, random keys 0..4 ids 0..3) and an Ord drawn from {harness order by key, ContraMap, New, as.Ord, GivenField.Reversed, key.ThenComparing(id)}; the container gets a private copy of xs; "
	sortRule := base + "non-trivial iff xs has two reference-equal elements and an inversion; distinct by (ord, xs)"
	for _, c := range containers() {
		c := c
		fn := c.name + ".Sort"
		kit.Check(t, fn+"/ordered", sortRule+"; law: no element of the output is smaller (reference order of the drawn Ord) than its predecessor", kit.Opt{}, func(rt *rapid.T, rec *kit.Rec) {
			sc := drawSortCase(rt, rec, kinds)
			rec.Case(sortNontrivial(sc), sc.desc())
			var out fp.Seq[kv]
			rec.Guard(rt, "C10|"+fn+"|ordered", func() { out = c.sort(sc.xs, sc.k.o) })
			for i := 1; i < len(out); i++ {
				if sc.k.ref(out[i-1], out[i]) > 0 {
					rec.Failf(rt, "C10|"+fn+"|ordered", "%s(%s, %s) = %s: element %d (%d#%d) is smaller than its predecessor", fn, showKVs(sc.xs), sc.k.name, showKVs(out), i, out[i].key, out[i].id)
				}
			}
		})
		kit.Check(t, fn+"/permutation", sortRule+"; law: output and input are equal as multisets of records (both directions); stability is not demanded", kit.Opt{}, func(rt *rapid.T, rec *kit.Rec) {
			sc := drawSortCase(rt, rec, kinds)
			rec.Case(sortNontrivial(sc), sc.desc())
			var out fp.Seq[kv]
			rec.Guard(rt, "C10|"+fn+"|permutation", func() { out = c.sort(sc.xs, sc.k.o) })
			if d := multisetDiff(sc.xs, out); len(d) > 0 || len(out) != len(sc.xs) {
				rec.Failf(rt, "C10|"+fn+"|permutation", "%s(%s, %s) = %s is not a permutation of the input: %v", fn, showKVs(sc.xs), sc.k.name, showKVs(out), d)
			}
		})
		for _, mm := range []struct {
			name string
			f    func(xs []kv, o fp.Ord[kv]) fp.Option[kv]
			dir  int
			word string
		}{{"Min", c.min, -1, "least"}, {"Max", c.max, 1, "greatest"}} {
			mm := mm
			fn := c.name + "." + mm.name
			mmRule := base + "non-trivial iff len(xs) >= 2 and not all elements are reference-equal; distinct by (ord, xs)"
			ntMM := func(sc sortCase) bool {
				for _, x := range sc.xs {
					if sc.k.ref(x, sc.xs[0]) != 0 {
						return true
					}
				}
				return false
			}
			kit.Check(t, fn+"/member", mmRule+"; law: None iff xs is empty, otherwise Some(x) with x an element of xs", kit.Opt{}, func(rt *rapid.T, rec *kit.Rec) {
				sc := drawSortCase(rt, rec, kinds)
				rec.Case(ntMM(sc), sc.desc())
				var got fp.Option[kv]
				rec.Guard(rt, "C10|"+fn+"|member", func() { got = mm.f(sc.xs, sc.k.o) })
				if got.IsDefined() != (len(sc.xs) > 0) {
					rec.Failf(rt, "C10|"+fn+"|member", "%s(%s, %s) = %s: must be None iff the input is empty", fn, showKVs(sc.xs), sc.k.name, showOptKV(got))
				}
				if got.IsDefined() && multiset(sc.xs)[got.Get()] == 0 {
					rec.Failf(rt, "C10|"+fn+"|member", "%s(%s, %s) = %s is not an element of the input", fn, showKVs(sc.xs), sc.k.name, showOptKV(got))
				}
			})
			kit.Check(t, fn+"/extreme", mmRule+"; law: if the result is Some(x), no element of xs is smaller (Min) / greater (Max) than x by the reference order of the drawn Ord; which of several equivalent elements is returned is not demanded", kit.Opt{}, func(rt *rapid.T, rec *kit.Rec) {
				sc := drawSortCase(rt, rec, kinds)
				rec.Case(ntMM(sc), sc.desc())
				var got fp.Option[kv]
				rec.Guard(rt, "C10|"+fn+"|extreme", func() { got = mm.f(sc.xs, sc.k.o) })
				if !got.IsDefined() {
					return
				}
				for _, x := range sc.xs {
					if sign(sc.k.ref(x, got.Get())) == mm.dir {
						rec.Failf(rt, "C10|"+fn+"|extreme", "%s(%s, %s) = %s is not the %s: %d#%d beats it", fn, showKVs(sc.xs), sc.k.name, showOptKV(got), mm.word, x.key, x.id)
					}
				}
			})
		}
	}
}

func showOptKV(o fp.Option[kv]) string {
	if o.IsDefined() {
		return fmt.Sprintf("Some(%d#%d)", o.Get().key, o.Get().id)
	}
	return "None"
}
