package c10

import (
	"fmt"
	"strings"
	"time"

	"github.com/csgura/fp"
	"github.com/csgura/fp/option"
	"pgregory.net/rapid"

	"verifharness/kit"
)

// ---- scalars -----------------------------------------------------------------------

func cmpInt(a, b int) int {
	if a < b {
		return -1
	}
	if a > b {
		return 1
	}
	return 0
}

func diffRule[T any](d dom[T]) dom[T] {
	ref := d.ref
	d.nt = func(a, b T) bool { return ref(a, b) != 0 }
	d.ntRule = "a and b differ by the reference order"
	return d
}

var edgeInts = []int{0, 1, -1, 1<<63 - 1, -1 << 63, 1<<63 - 2, -1<<63 + 1}

// domInt: small ints (many ties); with edges also the extremes of the type.
func domInt(edges bool) dom[int] {
	small := rapid.IntRange(-3, 8)
	g := small
	if edges {
		g = rapid.OneOf(small, small, small, rapid.SampledFrom(edgeInts), rapid.Int())
	}
	return diffRule(dom[int]{
		gen: g,
		near: func(t *rapid.T, a int) (int, string) {
			switch rapid.IntRange(0, 3).Draw(t, "imut") {
			case 0:
				return a, "copy"
			case 1:
				return a + 1, "mutate" // wraps at the maximum; the reference is computed from the values
			case 2:
				return a - 1, "mutate"
			default:
				return a + rapid.IntRange(-3, 3).Draw(t, "d"), "mutate"
			}
		},
		ref:  cmpInt,
		same: func(a, b int) bool { return a == b },
		show: func(a int) string { return fmt.Sprint(a) },
	})
}

func domUint8() dom[uint8] {
	return diffRule(dom[uint8]{
		gen: rapid.OneOf(rapid.Uint8Range(0, 4), rapid.Uint8Range(250, 255), rapid.Uint8()),
		near: func(t *rapid.T, a uint8) (uint8, string) {
			switch rapid.IntRange(0, 2).Draw(t, "umut") {
			case 0:
				return a, "copy"
			case 1:
				return a + 1, "mutate"
			default:
				return a - 1, "mutate"
			}
		},
		ref: func(a, b uint8) int {
			return cmpInt(int(a), int(b))
		},
		same: func(a, b uint8) bool { return a == b },
		show: func(a uint8) string { return fmt.Sprint(a) },
	})
}

var floats = []float64{negInf(), -1e300, -2.5, -1, negZero(), 0, 5e-324, 0.1, 1, 2.5, 3, 1e300, posInf()}

func negZero() float64 { z := 0.0; return -z }
func posInf() float64  { z := 0.0; return 1 / z }
func negInf() float64  { z := 0.0; return -1 / z }

// domFloat: no NaN (the statement is about total orders; NaN is outside the domain).
func domFloat() dom[float64] {
	idx := func(a float64) int {
		for i, f := range floats {
			if f == a && (1/f < 0) == (1/a < 0) {
				return i
			}
		}
		return 0
	}
	return diffRule(dom[float64]{
		gen: rapid.SampledFrom(floats),
		near: func(t *rapid.T, a float64) (float64, string) {
			i := idx(a)
			switch rapid.IntRange(0, 2).Draw(t, "fmut") {
			case 0:
				return a, "copy"
			case 1:
				if i+1 < len(floats) {
					return floats[i+1], "mutate"
				}
				return floats[i-1], "mutate"
			default:
				if i > 0 {
					return floats[i-1], "mutate"
				}
				return floats[i+1], "mutate"
			}
		},
		ref: func(a, b float64) int {
			if a < b {
				return -1
			}
			if b < a {
				return 1
			}
			return 0
		},
		same: func(a, b float64) bool { return a == b },
		show: func(a float64) string { return fmt.Sprintf("%v", a) },
	})
}

var strAlphabet = []string{"a", "b", "", "A", "é", "ab", "ba", "\x00", "z"}

func domString() dom[string] {
	ch := rapid.SampledFrom(strAlphabet)
	gen := rapid.Custom(func(t *rapid.T) string {
		n := rapid.IntRange(0, 3).Draw(t, "n")
		var sb strings.Builder
		for i := 0; i < n; i++ {
			sb.WriteString(ch.Draw(t, "c"))
		}
		return sb.String()
	})
	return diffRule(dom[string]{
		gen: gen,
		near: func(t *rapid.T, a string) (string, string) {
			switch rapid.IntRange(0, 3).Draw(t, "smut") {
			case 0:
				return a, "copy"
			case 1:
				return a + ch.Draw(t, "c"), "extend"
			case 2:
				if len(a) == 0 {
					return "a", "extend"
				}
				return a[:rapid.IntRange(0, len(a)-1).Draw(t, "cut")], "truncate"
			default:
				if len(a) == 0 {
					return "b", "extend"
				}
				p := rapid.IntRange(0, len(a)-1).Draw(t, "p")
				return a[:p] + ch.Draw(t, "c") + a[p+1:], "mutate"
			}
		},
		// byte-wise lexicographic, written out
		ref: func(a, b string) int {
			for i := 0; i < len(a) && i < len(b); i++ {
				if a[i] != b[i] {
					return cmpInt(int(a[i]), int(b[i]))
				}
			}
			return cmpInt(len(a), len(b))
		},
		same: func(a, b string) bool { return a == b },
		show: func(a string) string { return fmt.Sprintf("%q", a) },
	})
}

// ---- time --------------------------------------------------------------------------

var zones = []*time.Location{time.UTC, time.FixedZone("E9", 9*3600), time.FixedZone("W5", -5*3600)}

func domTime() dom[time.Time] {
	secs := rapid.SampledFrom([]int64{-1, 0, 1, 2, 1700000000, 1700000001, -62135596800, 253402300799})
	nsecs := rapid.SampledFrom([]int64{0, 1, 2, 999999999})
	zone := rapid.SampledFrom(zones)
	gen := rapid.Custom(func(t *rapid.T) time.Time {
		if rapid.IntRange(0, 9).Draw(t, "zero") == 0 {
			return time.Time{}
		}
		return time.Unix(secs.Draw(t, "s"), nsecs.Draw(t, "ns")).In(zone.Draw(t, "z"))
	})
	return dom[time.Time]{
		gen: gen,
		near: func(t *rapid.T, a time.Time) (time.Time, string) {
			switch rapid.IntRange(0, 4).Draw(t, "tmut") {
			case 0:
				return a, "copy"
			case 1:
				return a.In(zone.Draw(t, "z")), "same-instant-other-zone"
			case 2:
				return a.Add(time.Nanosecond), "mutate"
			case 3:
				return a.Add(-time.Nanosecond), "mutate"
			default:
				return a.Add(time.Duration(rapid.IntRange(-2, 2).Draw(t, "ds")) * time.Second).In(zone.Draw(t, "z")), "mutate"
			}
		},
		// by instant: seconds since the epoch, then nanoseconds within the second
		ref: func(a, b time.Time) int {
			if a.Unix() != b.Unix() {
				if a.Unix() < b.Unix() {
					return -1
				}
				return 1
			}
			return cmpInt(a.Nanosecond(), b.Nanosecond())
		},
		same:   func(a, b time.Time) bool { return a == b },
		show:   func(a time.Time) string { return a.Format(time.RFC3339Nano) + "@" + a.Location().String() },
		nt:     func(a, b time.Time) bool { return a.Location() != b.Location() || a != b },
		ntRule: "a and b are different instants or are in different zones",
	}
}

// ---- Option: None sorts first (ord_test.go: Less(None, Some(20)) is asserted) ------------

func showOpt[T any](show func(T) string) func(fp.Option[T]) string {
	return func(o fp.Option[T]) string {
		if o.IsDefined() {
			return "Some(" + show(o.Get()) + ")"
		}
		return "None"
	}
}

func domOpt[T any](e dom[T]) dom[fp.Option[T]] {
	type O = fp.Option[T]
	return dom[O]{
		gen: rapid.Custom(func(t *rapid.T) O {
			if rapid.IntRange(0, 3).Draw(t, "none") == 0 {
				if rapid.Bool().Draw(t, "zeroval") {
					return O{}
				}
				return option.None[T]()
			}
			return option.Some(e.gen.Draw(t, "some"))
		}),
		near: func(t *rapid.T, a O) (O, string) {
			switch rapid.IntRange(0, 3).Draw(t, "omut") {
			case 0:
				return a, "copy"
			case 1:
				if a.IsDefined() {
					return option.None[T](), "to-none"
				}
				return option.Some(e.gen.Draw(t, "some")), "to-some"
			default:
				if a.IsDefined() {
					v, cls := e.near(t, a.Get())
					return option.Some(v), cls
				}
				return option.Some(e.gen.Draw(t, "some")), "to-some"
			}
		},
		ref: func(a, b O) int {
			switch {
			case !a.IsDefined() && !b.IsDefined():
				return 0
			case !a.IsDefined():
				return -1
			case !b.IsDefined():
				return 1
			}
			return e.ref(a.Get(), b.Get())
		},
		same: func(a, b O) bool {
			if a.IsDefined() != b.IsDefined() {
				return false
			}
			return !a.IsDefined() || e.same(a.Get(), b.Get())
		},
		show:   showOpt(e.show),
		nt:     func(a, b O) bool { return a.IsDefined() != b.IsDefined() || (a.IsDefined() && e.ref(a.Get(), b.Get()) != 0) },
		ntRule: "exactly one of a,b is None, or both are Some with different contents",
	}
}

// ---- Ptr: "nil goes to first" (doc comment of ord.Ptr) -----------------------------

func domPtr[T any](e dom[T]) dom[*T] {
	mkp := func(v T) *T { return &v }
	return dom[*T]{
		gen: rapid.Custom(func(t *rapid.T) *T {
			if rapid.IntRange(0, 3).Draw(t, "nil") == 0 {
				return nil
			}
			return mkp(e.gen.Draw(t, "v"))
		}),
		near: func(t *rapid.T, a *T) (*T, string) {
			switch rapid.IntRange(0, 4).Draw(t, "pmut") {
			case 0:
				return a, "same-pointer"
			case 1:
				if a == nil {
					return nil, "copy"
				}
				return mkp(*a), "copy" // other pointer, same content
			case 2:
				if a == nil {
					return mkp(e.gen.Draw(t, "v")), "to-non-nil"
				}
				return nil, "to-nil"
			default:
				if a == nil {
					return mkp(e.gen.Draw(t, "v")), "to-non-nil"
				}
				v, cls := e.near(t, *a)
				return mkp(v), cls
			}
		},
		ref: func(a, b *T) int {
			switch {
			case a == nil && b == nil:
				return 0
			case a == nil:
				return -1
			case b == nil:
				return 1
			}
			return e.ref(*a, *b)
		},
		same: func(a, b *T) bool { return a == b },
		show: func(a *T) string {
			if a == nil {
				return "nil"
			}
			return "&" + e.show(*a)
		},
		nt:     func(a, b *T) bool { return (a == nil) != (b == nil) || (a != nil && a != b) },
		ntRule: "exactly one of a,b is nil, or both are non-nil and different pointers",
	}
}

// ---- sequences: lexicographic, a proper prefix is smaller ----------------------------

func showSlice[T any](show func(T) string) func([]T) string {
	return func(s []T) string {
		parts := make([]string, len(s))
		for i, x := range s {
			parts[i] = show(x)
		}
		return "[" + strings.Join(parts, ",") + "]"
	}
}

func lexRef[T any](ref func(a, b T) int) func(a, b []T) int {
	return func(a, b []T) int {
		for i := 0; i < len(a) && i < len(b); i++ {
			if c := ref(a[i], b[i]); c != 0 {
				return c
			}
		}
		return cmpInt(len(a), len(b))
	}
}

func clone[T any](s []T) []T { return append([]T{}, s...) }

// domSliceOf builds the domain of []T; S is fp.Seq[T] or []T.
func domSliceOf[T any, S ~[]T](e dom[T], maxLen int) dom[S] {
	lex := lexRef(e.ref)
	// changes position p so that the result is different from the original by the reference
	mutateAt := func(t *rapid.T, s []T, p int, label string) {
		for i := 0; i < 8; i++ {
			v, _ := e.near(t, s[p])
			if e.ref(v, s[p]) != 0 {
				s[p] = v
				return
			}
		}
		s[p] = e.gen.Draw(t, label)
	}
	return dom[S]{
		gen: rapid.Custom(func(t *rapid.T) S {
			n := rapid.IntRange(0, maxLen).Draw(t, "len")
			if n == 0 && rapid.Bool().Draw(t, "nil") {
				return nil
			}
			s := make([]T, n)
			for i := range s {
				s[i] = e.gen.Draw(t, "e")
			}
			return S(s)
		}),
		near: func(t *rapid.T, a S) (S, string) {
			b := clone([]T(a))
			k := rapid.IntRange(0, 11).Draw(t, "qmut")
			switch {
			case k == 10:
				// the same storage: a itself, a prefix view a[:p] or a suffix view a[p:] of its backing array
				switch v := rapid.IntRange(0, 2).Draw(t, "view"); {
				case v == 0 || len(a) == 0:
					return a, "same-slice"
				case v == 1:
					return a[:rapid.IntRange(0, len(a)-1).Draw(t, "cut")], "prefix-view"
				default:
					return a[rapid.IntRange(0, len(a)-1).Draw(t, "from"):], "suffix-view"
				}
			case k == 0 || k == 11:
				return S(b), "copy"
			case k <= 2 || len(b) == 0:
				n := rapid.IntRange(1, 2).Draw(t, "ext")
				for i := 0; i < n; i++ {
					b = append(b, e.gen.Draw(t, "e"))
				}
				return S(b), "extend"
			case k <= 4:
				return S(b[:rapid.IntRange(0, len(b)-1).Draw(t, "cut")]), "truncate"
			case k <= 6 || len(b) < 2:
				mutateAt(t, b, rapid.IntRange(0, len(b)-1).Draw(t, "p"), "m")
				return S(b), "mutate-1"
			case k <= 8:
				// two positions p<q changed in opposite directions: the first must decide
				p := rapid.IntRange(0, len(b)-2).Draw(t, "p")
				q := rapid.IntRange(p+1, len(b)-1).Draw(t, "q")
				orig := clone(b)
				mutateAt(t, b, p, "mp")
				for i := 0; i < 8; i++ {
					mutateAt(t, b, q, "mq")
					if e.ref(b[q], orig[q]) == -e.ref(b[p], orig[p]) {
						break
					}
					b[q] = orig[q]
				}
				if e.ref(b[q], orig[q]) == 0 {
					return S(b), "mutate-1"
				}
				if e.ref(b[q], orig[q]) == -e.ref(b[p], orig[p]) {
					return S(b), "mutate-2-opposite"
				}
				return S(b), "mutate-2-same"
			default:
				// mutate one position and change the length as well
				mutateAt(t, b, rapid.IntRange(0, len(b)-1).Draw(t, "p"), "m")
				if rapid.Bool().Draw(t, "grow") {
					return S(append(b, e.gen.Draw(t, "e"))), "mutate+extend"
				}
				return S(b[:len(b)-1]), "mutate+truncate"
			}
		},
		ref: func(a, b S) int { return lex([]T(a), []T(b)) },
		same: func(a, b S) bool {
			if len(a) != len(b) {
				return false
			}
			for i := range a {
				if !e.same(a[i], b[i]) {
					return false
				}
			}
			return true
		},
		show: func(a S) string { return showSlice(e.show)([]T(a)) },
		nt: func(a, b S) bool {
			if lex([]T(a), []T(b)) == 0 {
				return false
			}
			return len(a) != len(b) || (len(a) > 0 && e.ref(a[0], b[0]) == 0)
		},
		ntRule: "a and b differ and have unequal lengths or a common non-empty prefix",
	}
}

// ---- fixed-arity products over int (Tuple1..21, HCons chains) --------------------------

// firstDiffCap: ord.TupleN needs time exponential in the position of the first
// differing component (about 2x per position, > 1 s per Less call at position 20),
// so the quick tier only places the *first* difference at positions 0..14; the
// thorough tier uses every position.
func firstDiffCap() int { return kit.Pick(14, 1<<30) }

// domFixed: T is isomorphic to [n]int. Near-copies differ at exactly one
// uniformly chosen position, or at two positions changed in opposite
// directions (so the first differing position must decide), or are copies.
func domFixed[T any](n int, to func([]int) T, from func(T) []int) dom[T] {
	lex := lexRef(cmpInt)
	comp := rapid.IntRange(-3, 8)
	delta := rapid.IntRange(1, 3)
	maxFirst := min(n-1, firstDiffCap())
	return dom[T]{
		gen: rapid.Custom(func(t *rapid.T) T {
			s := make([]int, n)
			for i := range s {
				s[i] = comp.Draw(t, "c")
			}
			return to(s)
		}),
		near: func(t *rapid.T, a T) (T, string) {
			s := clone(from(a))
			k := rapid.IntRange(0, 9).Draw(t, "xmut")
			if k == 0 || n == 0 {
				return to(s), "copy"
			}
			d := delta.Draw(t, "d")
			if rapid.Bool().Draw(t, "neg") {
				d = -d
			}
			if k <= 5 || n < 2 {
				p := rapid.IntRange(0, maxFirst).Draw(t, "p")
				s[p] += d
				return to(s), "mutate-1"
			}
			p := rapid.IntRange(0, min(maxFirst, n-2)).Draw(t, "p")
			q := rapid.IntRange(p+1, n-1).Draw(t, "q")
			s[p] += d
			d2 := delta.Draw(t, "d2")
			if d > 0 {
				d2 = -d2
			}
			s[q] += d2
			return to(s), "mutate-2-opposite"
		},
		ref: func(a, b T) int { return lex(from(a), from(b)) },
		same: func(a, b T) bool {
			return lex(from(a), from(b)) == 0
		},
		show: func(a T) string { return fmt.Sprint(from(a)) },
		nt: func(a, b T) bool {
			x, y := from(a), from(b)
			if lex(x, y) == 0 {
				return false
			}
			return n < 2 || x[0] == y[0]
		},
		ntRule: "a and b differ and (arity >= 2) tie in the first component (near-copies: one uniformly chosen position changed, or two in opposite directions; quick tier: first changed position <= 14)",
	}
}

// ---- binary products (heterogeneous Tuple2 / HCons / ord.New on a pair) ----------------

func domProd2[A, B, T any](da dom[A], db dom[B], mkT func(A, B) T, un func(T) (A, B)) dom[T] {
	ref := func(x, y T) int {
		xa, xb := un(x)
		ya, yb := un(y)
		if c := da.ref(xa, ya); c != 0 {
			return c
		}
		return db.ref(xb, yb)
	}
	differ := func(t *rapid.T, d int, a A, b B) (A, B) {
		// change component d (0/1) to a value different by the reference
		for i := 0; i < 8; i++ {
			if d == 0 {
				v, _ := da.near(t, a)
				if da.ref(v, a) != 0 {
					return v, b
				}
			} else {
				v, _ := db.near(t, b)
				if db.ref(v, b) != 0 {
					return a, v
				}
			}
		}
		return a, b
	}
	return dom[T]{
		gen: rapid.Custom(func(t *rapid.T) T { return mkT(da.gen.Draw(t, "1"), db.gen.Draw(t, "2")) }),
		near: func(t *rapid.T, x T) (T, string) {
			a, b := un(x)
			switch k := rapid.IntRange(0, 9).Draw(t, "2mut"); {
			case k == 0:
				return mkT(a, b), "copy"
			case k <= 3:
				a, b = differ(t, 0, a, b)
				return mkT(a, b), "mutate-first"
			case k <= 6:
				a, b = differ(t, 1, a, b)
				return mkT(a, b), "mutate-second"
			default:
				na, _ := differ(t, 0, a, b)
				for i := 0; i < 8; i++ {
					_, nb := differ(t, 1, a, b)
					if db.ref(nb, b) == -da.ref(na, a) {
						return mkT(na, nb), "mutate-2-opposite"
					}
				}
				return mkT(na, b), "mutate-first"
			}
		},
		ref: ref,
		same: func(x, y T) bool {
			xa, xb := un(x)
			ya, yb := un(y)
			return da.same(xa, ya) && db.same(xb, yb)
		},
		show: func(x T) string { a, b := un(x); return "(" + da.show(a) + "," + db.show(b) + ")" },
		nt: func(x, y T) bool {
			xa, _ := un(x)
			ya, _ := un(y)
			return ref(x, y) != 0 && da.ref(xa, ya) == 0
		},
		ntRule: "a and b differ and tie in the first component",
	}
}

// ---- records ordered by a key only -------------------------------------------------

// kv is ordered by key only; id makes equivalent-but-different values visible.
type kv struct{ key, id int }

func (r kv) Key() int { return r.key }

func domKV() dom[kv] {
	keys := rapid.IntRange(0, 4)
	ids := rapid.IntRange(0, 3)
	return dom[kv]{
		gen: rapid.Custom(func(t *rapid.T) kv { return kv{keys.Draw(t, "key"), ids.Draw(t, "id")} }),
		near: func(t *rapid.T, a kv) (kv, string) {
			switch rapid.IntRange(0, 4).Draw(t, "kmut") {
			case 0:
				return a, "copy"
			case 1, 2:
				a.id += rapid.IntRange(1, 2).Draw(t, "d")
				return a, "same-key-other-id"
			case 3:
				a.key += rapid.SampledFrom([]int{-1, 1}).Draw(t, "d")
				return a, "mutate-key"
			default:
				a.key += rapid.SampledFrom([]int{-1, 1}).Draw(t, "d")
				a.id -= rapid.SampledFrom([]int{-1, 1}).Draw(t, "d2")
				return a, "mutate-both"
			}
		},
		ref:    func(a, b kv) int { return cmpInt(a.key, b.key) },
		same:   func(a, b kv) bool { return a == b },
		show:   func(a kv) string { return fmt.Sprintf("{k%d #%d}", a.key, a.id) },
		nt:     func(a, b kv) bool { return a != b },
		ntRule: "a and b are different records (equal keys with different ids included)",
	}
}

// abc: three int fields, used for ThenComparing chains.
type abc struct{ a, b, c int }

func (r abc) A() int { return r.a }
func (r abc) B() int { return r.b }
func (r abc) C() int { return r.c }

// domABC with the reference order given by a comparison of records.
func domABC(ref func(x, y abc) int, ntRule string) dom[abc] {
	f := rapid.IntRange(0, 2)
	return dom[abc]{
		gen: rapid.Custom(func(t *rapid.T) abc { return abc{f.Draw(t, "a"), f.Draw(t, "b"), f.Draw(t, "c")} }),
		near: func(t *rapid.T, x abc) (abc, string) {
			d := rapid.SampledFrom([]int{-1, 1}).Draw(t, "d")
			switch rapid.IntRange(0, 6).Draw(t, "amut") {
			case 0:
				return x, "copy"
			case 1:
				x.a += d
				return x, "mutate-a"
			case 2:
				x.b += d
				return x, "mutate-b"
			case 3:
				x.c += d
				return x, "mutate-c"
			case 4:
				x.a += d
				x.b -= d
				return x, "mutate-ab-opposite"
			case 5:
				x.b += d
				x.c -= d
				return x, "mutate-bc-opposite"
			default:
				x.a += d
				x.c -= d
				return x, "mutate-ac-opposite"
			}
		},
		ref:    ref,
		same:   func(x, y abc) bool { return x == y },
		show:   func(x abc) string { return fmt.Sprintf("{%d %d %d}", x.a, x.b, x.c) },
		nt:     func(x, y abc) bool { return x != y && x.a == y.a },
		ntRule: ntRule,
	}
}
