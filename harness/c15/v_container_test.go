package c15

import (
	"bytes"
	"encoding/json"
	"fmt"
	"testing"

	"github.com/csgura/fp"
	"pgregory.net/rapid"

	"verifharness/kit"
)

// vCont describes one container shape. S is a library-free "twin" (pointers instead of
// options: nil <-> None, &v <-> Some(v)); it is what rapid draws, what encoding/json
// renders into the expected bytes, and what the library-typed value L is built from.
type vCont[S any, L any] struct {
	name     string // sub-check prefix
	sigName  string // middle part of the signature
	gen      *rapid.Generator[S]
	build    func(S) L // fresh value on every call
	prefill  func(S) L // target content before decoding (nil: build)
	eq       func(a, b L) bool
	show     func(L) string
	rich     func(S) bool
	richRule string
	what     string
	weight   float64
}

func vContChecks[S any, L any](t *testing.T, c vCont[S, L], roundtrip bool) {
	t.Helper()
	if c.prefill == nil {
		c.prefill = c.build
	}
	if c.show == nil {
		c.show = func(l L) string { return fmt.Sprintf("%+v", l) }
	}
	sigB, sigR, sigD := "C15|"+c.sigName+"|bytes", "C15|"+c.sigName+"|roundtrip", "C15|"+c.sigName+"|decode-enc"
	ntRule := "non-trivial iff " + c.richRule + "; distinct by the printed twin"

	kit.Check(t, c.name+"/bytes", c.what+"; json.Marshal of the library-typed value compared byte for byte with encoding/json on the library-free twin (nil pointer <-> None, &v <-> Some(v)); "+ntRule, kit.Opt{Weight: c.weight}, func(rt *rapid.T, rec *kit.Rec) {
		s := c.gen.Draw(rt, "twin")
		want, err := json.Marshal(s)
		if err != nil {
			rt.Fatalf("harness: twin not encodable: %v", err)
		}
		rec.Case(c.rich(s), string(want))
		x := c.build(s)
		var got []byte
		rec.Guard(rt, sigB, func() { got, err = json.Marshal(x) })
		if err != nil {
			rec.Failf(rt, sigB, "json.Marshal(%s) failed: %v", c.show(x), err)
		}
		if !bytes.Equal(got, want) {
			rec.Failf(rt, sigB, "json.Marshal(%s) = %s, encoding/json on the twin gives %s", c.show(x), got, want)
		}
	})
	if !roundtrip {
		return
	}
	kit.Check(t, c.name+"/roundtrip", c.what+"; json.Unmarshal(json.Marshal(x)) into a target pre-filled from a second drawn twin must succeed and give a value equal to x; "+ntRule, kit.Opt{Weight: c.weight}, func(rt *rapid.T, rec *kit.Rec) {
		s := c.gen.Draw(rt, "twin")
		p := c.gen.Draw(rt, "pre")
		rec.Case(c.rich(s), vEnc(s)+" into "+vEnc(p))
		x := c.build(s)
		target := c.prefill(p)
		var b []byte
		var merr, uerr error
		rec.Guard(rt, sigR, func() {
			b, merr = json.Marshal(x)
			if merr == nil {
				uerr = json.Unmarshal(b, &target)
			}
		})
		if merr != nil {
			rec.Failf(rt, sigR, "json.Marshal(%s) failed: %v", c.show(x), merr)
		}
		if uerr != nil {
			rec.Failf(rt, sigR, "json.Unmarshal(%s) of the encoding of %s failed: %v", b, c.show(x), uerr)
		}
		if want := c.build(s); !c.eq(target, want) {
			rec.Failf(rt, sigR, "round trip of %s through %s gives %s", c.show(want), b, c.show(target))
		}
	})
	kit.Check(t, c.name+"/decode-enc", c.what+"; the document is encoding/json's rendering of the twin; decoding it into a pre-filled library-typed target must give the value built from the twin; "+ntRule, kit.Opt{Weight: c.weight}, func(rt *rapid.T, rec *kit.Rec) {
		s := c.gen.Draw(rt, "twin")
		p := c.gen.Draw(rt, "pre")
		doc, err := json.Marshal(s)
		if err != nil {
			rt.Fatalf("harness: twin not encodable: %v", err)
		}
		rec.Case(c.rich(s), string(doc)+" into "+vEnc(p))
		target := c.prefill(p)
		var uerr error
		rec.Guard(rt, sigD, func() { uerr = json.Unmarshal(doc, &target) })
		if uerr != nil {
			rec.Failf(rt, sigD, "json.Unmarshal(%s) failed: %v", doc, uerr)
		}
		if want := c.build(s); !c.eq(target, want) {
			rec.Failf(rt, sigD, "json.Unmarshal(%s) gives %s, want %s", doc, c.show(target), c.show(want))
		}
	})
}

// ---- a hand-declared struct with option fields, with and without omitempty ------------

type vHolder struct {
	N int                       `json:"n"`
	A fp.Option[int]            `json:"a"`
	B fp.Option[string]         `json:"b,omitempty"`
	C fp.Option[[]int]          `json:"c"`
	D fp.Option[fp.Option[int]] `json:"d,omitempty"`
	P *fp.Option[int]           `json:"p,omitempty"`
	S string                    `json:"s"`
}

// vHolderTwin: what encoding/json is documented to do with vHolder. A struct-typed field is
// never "empty", so omitempty on B and D has no effect (null is emitted for None); P is a
// pointer, so omitempty drops it when nil.
type vHolderTwin struct {
	N int     `json:"n"`
	A *int    `json:"a"`
	B *string `json:"b"`
	C *[]int  `json:"c"`
	D *int    `json:"d"`
	P *int    `json:"p,omitempty"`
	S string  `json:"s"`
}

func vOptOfPtr[T any](p *T, clone func(T) T) fp.Option[T] {
	if p == nil {
		return vNone[T]()
	}
	return vSome(clone(*p))
}

func vID[T any](v T) T { return v }

func vCloneInts(s []int) []int { return append([]int{}, s...) }

func (s vHolderTwin) build() vHolder {
	h := vHolder{N: s.N, S: s.S, A: vOptOfPtr(s.A, vID[int]), B: vOptOfPtr(s.B, vID[string]), C: vOptOfPtr(s.C, vCloneInts)}
	if s.D != nil {
		h.D = vSome(vSome(*s.D))
	}
	if s.P != nil {
		o := vSome(*s.P)
		h.P = &o
	}
	return h
}

func vEqHolder(a, b vHolder) bool {
	return a.N == b.N && a.S == b.S && vEqOpt(vEqC[int])(a.A, b.A) && vEqOpt(vEqC[string])(a.B, b.B) && vEqOpt(vEqSlice(vEqC[int]))(a.C, b.C) &&
		vEqOpt(vEqOpt(vEqC[int]))(a.D, b.D) && vEqPtr(vEqOpt(vEqC[int]))(a.P, b.P)
}

func vShowHolder(h vHolder) string {
	p := "nil"
	if h.P != nil {
		p = "&" + h.P.String()
	}
	return fmt.Sprintf("{N:%d A:%v B:%s C:%v D:%v P:%s S:%q}", h.N, h.A, vShowOpt(h.B, func(s string) string { return fmt.Sprintf("%q", s) }), h.C, h.D, p, h.S)
}

func vGenPtr[T any](g *rapid.Generator[T]) *rapid.Generator[*T] {
	return rapid.Custom(func(t *rapid.T) *T {
		if rapid.IntRange(0, 3).Draw(t, "nil") == 0 {
			return nil
		}
		v := g.Draw(t, "v")
		return &v
	})
}

func vGenHolderTwin() *rapid.Generator[vHolderTwin] {
	return rapid.Custom(func(t *rapid.T) vHolderTwin {
		return vHolderTwin{
			N: vGenInt().Draw(t, "N"),
			A: vGenPtr(vGenInt()).Draw(t, "A"),
			B: vGenPtr(vGenStr()).Draw(t, "B"),
			C: vGenPtr(vGenInts()).Draw(t, "C"),
			D: vGenPtr(vGenInt()).Draw(t, "D"),
			P: vGenPtr(vGenInt()).Draw(t, "P"),
			S: vGenStr().Draw(t, "S"),
		}
	})
}

func TestContainer(t *testing.T) {
	vContChecks(t, vCont[vHolderTwin, vHolder]{
		name: "struct-fields", sigName: "struct{Option fields}",
		what: "hand-declared struct with json tags and fields int, Option[int], Option[string] `omitempty`, Option[[]int], Option[Option[int]] `omitempty`, *Option[int] `omitempty`, string (Some(None), Some(nil) and &None are not generated: they encode to null)",
		gen:  vGenHolderTwin(), build: vHolderTwin.build,
		// a key that omitempty drops (nil P) leaves the target's field alone, as for any Go struct: start from P == nil
		prefill: func(s vHolderTwin) vHolder { s.P = nil; return s.build() },
		eq:      vEqHolder, show: vShowHolder,
		rich:     func(s vHolderTwin) bool { return s.D != nil || (s.B != nil && vNeedsEscape(*s.B)) },
		richRule: "the nested option field is defined or the string option needs escapes",
	}, true)

	vContChecks(t, vCont[[]*int, []fp.Option[int]]{
		name: "[]Option[int]", sigName: "[]Option[int]", what: "non-nil slice (len 0..5) of Option[int]",
		gen: rapid.Map(rapid.SliceOfN(vGenPtr(vGenInt()), 0, 5), vNonNil[*int]),
		build: func(s []*int) []fp.Option[int] {
			out := make([]fp.Option[int], 0, len(s))
			for _, p := range s {
				out = append(out, vOptOfPtr(p, vID[int]))
			}
			return out
		},
		eq: vEqSlice(vEqOpt(vEqC[int])),
		rich: func(s []*int) bool {
			some, none := false, false
			for _, p := range s {
				if p == nil {
					none = true
				} else {
					some = true
				}
			}
			return some && none
		},
		richRule: "the slice mixes None and Some elements",
	}, true)

	vContChecks(t, vCont[map[string]*string, map[string]fp.Option[string]]{
		name: "map[string]Option[string]", sigName: "map[string]Option[string]", what: "non-nil map (0..4 entries, arbitrary valid UTF-8 keys) of Option[string]",
		gen: rapid.Map(rapid.MapOfN(vGenKey(), vGenPtr(vGenStr()), 0, 4), func(m map[string]*string) map[string]*string {
			if m == nil {
				return map[string]*string{}
			}
			return m
		}),
		build: func(s map[string]*string) map[string]fp.Option[string] {
			out := map[string]fp.Option[string]{}
			for k, p := range s {
				out[k] = vOptOfPtr(p, vID[string])
			}
			return out
		},
		// encoding/json keeps the entries of a non-empty target map: start from an empty one
		prefill: func(map[string]*string) map[string]fp.Option[string] {
			return map[string]fp.Option[string]{}
		},
		eq: vEqMap(vEqOpt(vEqC[string])),
		show: func(m map[string]fp.Option[string]) string {
			s := "map["
			for _, k := range vSortedKeys(m) {
				s += fmt.Sprintf("%q:%v ", k, m[k])
			}
			return s + "]"
		},
		rich: func(s map[string]*string) bool {
			for _, p := range s {
				if p != nil && vNeedsEscape(*p) {
					return true
				}
			}
			return false
		},
		richRule: "a Some value needs escapes",
	}, true)

	vContChecks(t, vCont[*int, *fp.Option[int]]{
		name: "*Option[int]", sigName: "*Option[int]", what: "pointer to Option[int]: nil or &Some(v) (&None encodes to null and is outside the statement)",
		gen: vGenPtr(vGenInt()),
		build: func(p *int) *fp.Option[int] {
			if p == nil {
				return nil
			}
			o := vSome(*p)
			return &o
		},
		eq: vEqPtr(vEqOpt(vEqC[int])),
		show: func(p *fp.Option[int]) string {
			if p == nil {
				return "nil"
			}
			return "&" + p.String()
		},
		rich: func(p *int) bool { return p != nil }, richRule: "the pointer is non-nil",
	}, true)

	// options as dynamic values: encode only (decoding into `any` cannot produce an option)
	vContChecks(t, vCont[[]any, []any]{
		name: "[]any{Option}", sigName: "[]any{Option}", what: "[]any whose elements are Option[int] / Option[string] / *Option[int] values",
		gen: rapid.SliceOfN(rapid.OneOf(
			rapid.Map(vGenPtr(vGenInt()), func(p *int) any { return p }),
			rapid.Map(vGenPtr(vGenStr()), func(p *string) any { return p }),
		), 0, 4),
		build: func(s []any) []any {
			out := make([]any, 0, len(s))
			for i, e := range s {
				switch p := e.(type) {
				case *int:
					o := vOptOfPtr(p, vID[int])
					if i%2 == 0 {
						out = append(out, o)
					} else {
						out = append(out, &o)
					}
				case *string:
					out = append(out, vOptOfPtr(p, vID[string]))
				}
			}
			return out
		},
		rich: func(s []any) bool { return len(s) >= 2 }, richRule: "at least two elements",
	}, false)
}

// ---- fp.Unit ------------------------------------------------------------------------

type vUnitHolder struct {
	U fp.Unit `json:"u"`
	V fp.Unit `json:"v,omitempty"`
	X int     `json:"x"`
}

type vUnitHolderTwin struct {
	U *int `json:"u"`
	V *int `json:"v"`
	X int  `json:"x"`
}

func TestUnit(t *testing.T) {
	vContChecks(t, vCont[*int, fp.Unit]{
		name: "Unit", sigName: "Unit", what: "the only value fp.Unit{}; its encoding is the literal null (twin: a nil pointer)",
		gen: rapid.Just((*int)(nil)), build: func(*int) fp.Unit { return fp.Unit{} }, eq: vEqC[fp.Unit],
		rich: func(*int) bool { return true }, richRule: "always (one value)", weight: 0.02,
	}, true)
	vContChecks(t, vCont[[]*int, []fp.Unit]{
		name: "[]Unit", sigName: "[]Unit", what: "non-nil slice of n = 0..6 units",
		gen:   rapid.Map(rapid.IntRange(0, 6), func(n int) []*int { return make([]*int, n) }),
		build: func(s []*int) []fp.Unit { return make([]fp.Unit, len(s)) }, eq: vEqSlice(vEqC[fp.Unit]),
		rich: func(s []*int) bool { return len(s) > 0 }, richRule: "n > 0",
	}, true)
	vContChecks(t, vCont[map[string]*int, map[string]fp.Unit]{
		name: "map[string]Unit", sigName: "map[string]Unit", what: "non-nil map with 0..4 arbitrary keys and unit values",
		gen: rapid.Map(rapid.SliceOfN(vGenKey(), 0, 4), func(ks []string) map[string]*int {
			m := map[string]*int{}
			for _, k := range ks {
				m[k] = nil
			}
			return m
		}),
		build: func(s map[string]*int) map[string]fp.Unit {
			m := map[string]fp.Unit{}
			for k := range s {
				m[k] = fp.Unit{}
			}
			return m
		},
		prefill: func(map[string]*int) map[string]fp.Unit { return map[string]fp.Unit{} },
		eq:      vEqMap(vEqC[fp.Unit]),
		rich:    func(s map[string]*int) bool { return len(s) > 0 }, richRule: "the map is non-empty",
	}, true)
	vContChecks(t, vCont[vUnitHolderTwin, vUnitHolder]{
		name: "struct{Unit}", sigName: "struct{Unit fields}", what: "struct with fp.Unit fields with and without omitempty (a struct-typed field is never empty for encoding/json) and an int",
		gen:   rapid.Map(vGenInt(), func(x int) vUnitHolderTwin { return vUnitHolderTwin{X: x} }),
		build: func(s vUnitHolderTwin) vUnitHolder { return vUnitHolder{X: s.X} }, eq: vEqC[vUnitHolder],
		rich: func(vUnitHolderTwin) bool { return true }, richRule: "always",
	}, true)
}

// ---- the remaining hand-written MarshalJSON methods (encode only: there is no decoder) ----

func TestOtherMarshalers(t *testing.T) {
	vContChecks(t, vCont[string, fp.Either[string, int]]{
		name: "Either.Left", sigName: "Either.Left", what: "fp.Left[string,int](s), s arbitrary valid UTF-8: encodes as the bare s",
		gen: vGenStr(), build: func(s string) fp.Either[string, int] { return fp.Left[string, int](s) },
		show: func(e fp.Either[string, int]) string { return fmt.Sprintf("Left(%q)", e.Left()) },
		rich: vNeedsEscape, richRule: "s needs escapes",
	}, false)
	vContChecks(t, vCont[[]int, fp.Either[string, []int]]{
		name: "Either.Right", sigName: "Either.Right", what: "fp.Right[string,[]int](v): encodes as the bare v",
		gen: vGenInts(), build: func(s []int) fp.Either[string, []int] { return fp.Right[string, []int](s) },
		show: func(e fp.Either[string, []int]) string { return fmt.Sprintf("Right(%v)", e.Get()) },
		rich: func(s []int) bool { return len(s) > 0 }, richRule: "v non-empty",
	}, false)
	vContChecks(t, vCont[*int, fp.Either[fp.Option[int], fp.Option[int]]]{
		name: "Either{Option}", sigName: "Either{Option}", what: "Left/Right (by parity of the value) holding an Option[int]: encodes as the option does",
		gen: vGenPtr(vGenInt()), build: func(p *int) fp.Either[fp.Option[int], fp.Option[int]] {
			if p != nil && *p%2 == 0 {
				return fp.Left[fp.Option[int], fp.Option[int]](vOptOfPtr(p, vID[int]))
			}
			return fp.Right[fp.Option[int], fp.Option[int]](vOptOfPtr(p, vID[int]))
		},
		rich: func(p *int) bool { return p != nil }, richRule: "the option is defined",
	}, false)
	vContChecks(t, vCont[string, fp.StringerFunc]{
		name: "StringerFunc", sigName: "StringerFunc", what: "fp.StringerFunc returning s: encodes as the JSON string s",
		gen: vGenStr(), build: func(s string) fp.StringerFunc { return func() string { return s } },
		show: func(f fp.StringerFunc) string { return fmt.Sprintf("StringerFunc(%q)", f()) },
		rich: vNeedsEscape, richRule: "s needs escapes",
	}, false)
}
