package c15

import (
	"testing"

	"verifharness/gomspec"
	"verifharness/kit"
)

// The @fp.Json generated-struct clause: packages of @fp.Json structs (JSON-faithful field types only)
// are run through gombok; bytes are compared with encoding/json on a harness-declared public twin and
// on the generated Mutable type, values round-trip, malformed input leaves the target unchanged.
func TestJsonStructs(t *testing.T) {
	gomspec.PkgCheck(t, "json/generated-structs", true, "C15", kit.Pick(3, 50))
}

// TestKnown replays the fixed inputs of the known findings of C15 (known_findings.json).
func TestKnown(t *testing.T) {
	gomspec.KnownJsonEmbedsJsonCheck(t)
}
