package c15

// Decoder clause of C15 for the hand-written UnmarshalJSON methods: decoding arbitrary
// bytes never panics, leaves the target unchanged on error, and — when it succeeds — gives
// None for null and Some(t) for what encoding/json decodes into a bare T.

import (
	"bytes"
	"encoding/json"
	"fmt"
	"strconv"
	"strings"
	"testing"

	"github.com/csgura/fp"
	"pgregory.net/rapid"

	"verifharness/kit"
)

const (
	vcPanic  = "no-panic"
	vcLeaves = "error-leaves-target"
	vcAgrees = "agrees-with-bare"
)

var vClauses = []string{vcPanic, vcLeaves, vcAgrees}

type vVerdict struct{ clause, msg string }

// vProbe is one decoding target. run decodes b into a target pre-filled with prefill #pre
// and returns the violated clauses plus the class of the input for this target
// (invalid / null / accept / reject).
type vProbe struct {
	name    string
	hint    int
	nPre    int
	nonZero func(pre int) bool
	deepRec bool // every nesting level goes through the library again (depth is capped)
	run     func(b []byte, pre int) ([]vVerdict, string)
}

func vBare[T any](b []byte) (T, error) {
	var t T
	err := json.Unmarshal(b, &t)
	return t, err
}

// vOptProbe: target fp.Option[T]; ref is the reference decoding of a non-null valid
// document into a fresh bare T (encoding/json alone unless T contains library types).
func vOptProbe[T any](name string, hint int, pres []func() fp.Option[T], eq func(a, b T) bool, ref func(b []byte) (T, error)) vProbe {
	eqO := vEqOpt(eq)
	return vProbe{name: name, hint: hint, nPre: len(pres), nonZero: func(i int) bool { return pres[i]().IsDefined() },
		run: func(b []byte, pre int) ([]vVerdict, string) {
			target, before := pres[pre](), pres[pre]()
			valid := json.Valid(b)
			var err error
			if pv, panicked := kit.Catch(func() { err = json.Unmarshal(b, &target) }); panicked {
				return []vVerdict{{vcPanic, fmt.Sprintf("json.Unmarshal(%q, &%s target) panicked: %v", b, name, pv)}}, "panic"
			}
			var vs []vVerdict
			add := func(c, f string, a ...any) { vs = append(vs, vVerdict{c, fmt.Sprintf(f, a...)}) }
			switch {
			case !valid:
				if err == nil {
					add(vcAgrees, "invalid JSON %q accepted, target = %v", b, target)
				} else if !eqO(target, before) {
					add(vcLeaves, "json.Unmarshal(%q) failed (%v) but changed the target from %v to %v", b, err, before, target)
				}
				return vs, "invalid"
			case vIsNullDoc(b):
				if err != nil {
					add(vcAgrees, "null document %q rejected: %v", b, err)
				} else if target.IsDefined() {
					add(vcAgrees, "null document %q decoded to %v, want None (target was %v)", b, target, before)
				}
				return vs, "null"
			}
			t, rerr := ref(b)
			if rerr == nil {
				if err != nil {
					add(vcAgrees, "document %q decodes into a bare %s but the option rejects it: %v", b, name, err)
				} else if !eqO(target, vSome(t)) {
					add(vcAgrees, "document %q decoded to %v, want Some(%v) (target was %v)", b, target, t, before)
				}
				return vs, "accept"
			}
			if err == nil {
				add(vcAgrees, "document %q is rejected by the bare element type (%v) but the option accepted it: %v", b, rerr, target)
			} else if !eqO(target, before) {
				add(vcLeaves, "json.Unmarshal(%q) failed (%v) but changed the target from %v to %v", b, err, before, target)
			}
			return vs, "reject"
		}}
}

// vTwinProbe: a container of options decoded side by side with its pointer twin. encoding/json
// itself may leave such a container half-filled on error, so on error only "no panic" is asked.
func vTwinProbe[L any, S any](name string, hint int, presL []func() L, presS []func() S, eq func(L, S) bool) vProbe {
	return vProbe{name: name, hint: hint, nPre: len(presL), nonZero: func(i int) bool { return i > 0 },
		run: func(b []byte, pre int) ([]vVerdict, string) {
			target, twin := presL[pre](), presS[pre]()
			valid := json.Valid(b)
			var err error
			if pv, panicked := kit.Catch(func() { err = json.Unmarshal(b, &target) }); panicked {
				return []vVerdict{{vcPanic, fmt.Sprintf("json.Unmarshal(%q, &%s target) panicked: %v", b, name, pv)}}, "panic"
			}
			var vs []vVerdict
			add := func(c, f string, a ...any) { vs = append(vs, vVerdict{c, fmt.Sprintf(f, a...)}) }
			if !valid {
				if err == nil {
					add(vcAgrees, "invalid JSON %q accepted", b)
				} else if !eq(target, twin) {
					add(vcLeaves, "json.Unmarshal(%q) failed on syntax (%v) but changed the target to %v", b, err, target)
				}
				return vs, "invalid"
			}
			terr := json.Unmarshal(b, &twin)
			switch {
			case (err == nil) != (terr == nil):
				add(vcAgrees, "document %q: options container error = %v, pointer twin error = %v", b, err, terr)
			case err == nil && !eq(target, twin):
				add(vcAgrees, "document %q decoded to %v, pointer twin gives %s", b, target, vEnc(twin))
			}
			if terr != nil {
				return vs, "reject"
			}
			if vIsNullDoc(b) {
				return vs, "null"
			}
			return vs, "accept"
		}}
}

// ---- recursive target: every level of the document goes through Option.UnmarshalJSON ----

type vNode struct {
	V    int               `json:"v"`
	Next fp.Option[*vNode] `json:"next"`
}

func vEqNode(a, b *vNode) bool {
	for {
		if a == nil || b == nil {
			return a == nil && b == nil
		}
		if a.V != b.V || a.Next.IsDefined() != b.Next.IsDefined() {
			return false
		}
		if !a.Next.IsDefined() {
			return true
		}
		a, b = a.Next.Get(), b.Next.Get()
	}
}

var vErrModel = fmt.Errorf("model: type error")

// vRefNode models json.Unmarshal(b, &t) for a fresh t *vNode and valid b: members in document
// order, exact then case-insensitive name match, later duplicates win, a fresh value per
// option (so nothing merges), any error anywhere makes the whole decoding fail.
func vRefNode(b []byte) (*vNode, error) {
	b = vTrimWS(b)
	if b[0] == 'n' {
		return nil, nil
	}
	n := &vNode{}
	if b[0] != '{' {
		return n, vErrModel
	}
	pairs, err := vPairs(b)
	if err != nil {
		return n, err
	}
	var saved error
	for _, p := range pairs {
		switch vMatchField(p.key, []string{"v", "next"}) {
		case "v":
			if p.raw[0] != 'n' {
				var v int
				if e := json.Unmarshal(p.raw, &v); e != nil {
					if saved == nil {
						saved = e
					}
				} else {
					n.V = v
				}
			}
		case "next":
			if p.raw[0] == 'n' {
				n.Next = vNone[*vNode]()
			} else {
				c, e := vRefNode(p.raw)
				if e != nil {
					return n, e
				}
				n.Next = vSome(c)
			}
		}
	}
	return n, saved
}

// ---- model of encoding/json decoding into vHolder -----------------------------------

var vHolderNames = []string{"n", "a", "b", "c", "d", "p", "s"}

// vModelHolder models json.Unmarshal(b, &h) for valid b. Documented encoding/json behaviour:
// null is a no-op, a non-object is a type error, members are applied in document order with
// exact-then-case-insensitive name matching, a type error on a plain field is remembered and
// decoding goes on, an error returned by an Unmarshaler stops decoding at once (earlier members
// stay applied). The option rule under test: null -> None, otherwise a fresh bare value is
// decoded, Some(it) on success, field untouched on failure.
func vModelHolder(h vHolder, b []byte) (vHolder, bool) {
	b = vTrimWS(b)
	if b[0] == 'n' {
		return h, false
	}
	if b[0] != '{' {
		return h, true
	}
	pairs, err := vPairs(b)
	if err != nil {
		panic("harness: vPairs on a valid object: " + err.Error())
	}
	saved := false
	for _, p := range pairs {
		null := p.raw[0] == 'n'
		switch vMatchField(p.key, vHolderNames) {
		case "n":
			if !null {
				if v, e := vBare[int](p.raw); e == nil {
					h.N = v
				} else {
					saved = true
				}
			}
		case "s":
			if !null {
				if v, e := vBare[string](p.raw); e == nil {
					h.S = v
				} else {
					saved = true
				}
			}
		case "a":
			if null {
				h.A = vNone[int]()
			} else if v, e := vBare[int](p.raw); e == nil {
				h.A = vSome(v)
			} else {
				return h, true
			}
		case "b":
			if null {
				h.B = vNone[string]()
			} else if v, e := vBare[string](p.raw); e == nil {
				h.B = vSome(v)
			} else {
				return h, true
			}
		case "c":
			if null {
				h.C = vNone[[]int]()
			} else if v, e := vBare[[]int](p.raw); e == nil {
				h.C = vSome(v)
			} else {
				return h, true
			}
		case "d":
			if null {
				h.D = vNone[fp.Option[int]]()
			} else if v, e := vBare[int](p.raw); e == nil {
				h.D = vSome(vSome(v))
			} else {
				return h, true
			}
		case "p":
			if null {
				h.P = nil
			} else {
				if h.P == nil {
					h.P = new(fp.Option[int]) // encoding/json allocates before calling UnmarshalJSON
				}
				if v, e := vBare[int](p.raw); e == nil {
					*h.P = vSome(v)
				} else {
					return h, true
				}
			}
		}
	}
	return h, saved
}

func vPtr[T any](v T) *T { return &v }

var vHolderPres = []func() vHolder{
	func() vHolder { return vHolder{} },
	func() vHolder {
		return vHolderTwin{N: 5, A: vPtr(7), B: vPtr("pre"), C: vPtr([]int{9, 9}), D: vPtr(6), P: vPtr(4), S: "s0"}.build()
	},
	func() vHolder {
		return vHolderTwin{N: 3, A: vPtr(1), C: vPtr([]int{}), P: vPtr(0), S: "x"}.build()
	},
}

func vHolderProbe() vProbe {
	return vProbe{name: "struct{Option fields}", hint: wHolderObj, nPre: len(vHolderPres), nonZero: func(i int) bool { return i > 0 },
		run: func(b []byte, pre int) ([]vVerdict, string) {
			target, before := vHolderPres[pre](), vHolderPres[pre]()
			valid := json.Valid(b)
			var err error
			if pv, panicked := kit.Catch(func() { err = json.Unmarshal(b, &target) }); panicked {
				return []vVerdict{{vcPanic, fmt.Sprintf("json.Unmarshal(%q, &struct) panicked: %v", b, pv)}}, "panic"
			}
			var vs []vVerdict
			add := func(c, f string, a ...any) { vs = append(vs, vVerdict{c, fmt.Sprintf(f, a...)}) }
			if !valid {
				if err == nil {
					add(vcAgrees, "invalid JSON %q accepted", b)
				} else if !vEqHolder(target, before) {
					add(vcLeaves, "json.Unmarshal(%q) failed on syntax (%v) but changed the target from %s to %s", b, err, vShowHolder(before), vShowHolder(target))
				}
				return vs, "invalid"
			}
			want, werr := vModelHolder(before, b)
			switch {
			case (err != nil) != werr:
				add(vcAgrees, "document %q into %s: error = %v, model expects error = %v (result %s)", b, vShowHolder(vHolderPres[pre]()), err, werr, vShowHolder(target))
			case !vEqHolder(target, want) && werr:
				add(vcLeaves, "document %q into %s failed (%v) and left %s; with the failing option field (and everything after it) untouched it would be %s", b, vShowHolder(vHolderPres[pre]()), err, vShowHolder(target), vShowHolder(want))
			case !vEqHolder(target, want):
				add(vcAgrees, "document %q into %s gives %s, model %s", b, vShowHolder(vHolderPres[pre]()), vShowHolder(target), vShowHolder(want))
			}
			if werr {
				return vs, "reject"
			}
			if vIsNullDoc(b) {
				return vs, "null"
			}
			return vs, "accept"
		}}
}

func vUnitProbe() vProbe {
	return vProbe{name: "Unit", hint: wAny, nPre: 1, nonZero: func(int) bool { return true },
		run: func(b []byte, pre int) ([]vVerdict, string) {
			var target fp.Unit
			valid := json.Valid(b)
			var err error
			if pv, panicked := kit.Catch(func() { err = json.Unmarshal(b, &target) }); panicked {
				return []vVerdict{{vcPanic, fmt.Sprintf("json.Unmarshal(%q, &fp.Unit) panicked: %v", b, pv)}}, "panic"
			}
			// fp.Unit has a single value: "unchanged on error" holds by construction. Whether
			// non-null documents are accepted is not stated anywhere and not demanded.
			if !valid {
				if err == nil {
					return []vVerdict{{vcAgrees, fmt.Sprintf("invalid JSON %q accepted", b)}}, "invalid"
				}
				return nil, "invalid"
			}
			if vIsNullDoc(b) {
				if err != nil {
					return []vVerdict{{vcAgrees, fmt.Sprintf("null document %q (the encoding of fp.Unit) rejected: %v", b, err)}}, "null"
				}
				return nil, "null"
			}
			if err != nil {
				return nil, "reject"
			}
			return nil, "accept"
		}}
}

func vPres[T any](vals ...func() T) []func() fp.Option[T] {
	out := []func() fp.Option[T]{func() fp.Option[T] { return vNone[T]() }}
	for _, f := range vals {
		f := f
		out = append(out, func() fp.Option[T] { return vSome(f()) })
	}
	return out
}

func vK[T any](v T) func() T { return func() T { return v } }

func vProbes() []vProbe {
	ps := []vProbe{
		vOptProbe("Option[int]", wInt, vPres(vK(7), vK(-1)), vEqC[int], vBare[int]),
		vOptProbe("Option[string]", wStr, vPres(vK("pre"), vK("null")), vEqC[string], vBare[string]),
		vOptProbe("Option[[]int]", wIntArr, vPres(func() []int { return []int{9, 8, 7} }, func() []int { return []int{} }), vEqSlice(vEqC[int]), vBare[[]int]),
		vOptProbe("Option[struct]", wPlainObj, vPres(func() vPlain { return vPlain{A: 7, B: "pre", C: []int{1}} }), vEqPlain, vBare[vPlain]),
		vOptProbe("Option[Option[int]]", wInt, vPres(func() fp.Option[int] { return vSome(7) }, func() fp.Option[int] { return vNone[int]() }), vEqOpt(vEqC[int]),
			func(b []byte) (fp.Option[int], error) {
				// the inner option can never see null (the outer one maps it to None): Some(i) or an error
				i, err := vBare[int](b)
				return vSome(i), err
			}),
		vOptProbe("Option[*int]", wInt, vPres(func() *int { return vPtr(7) }), vEqPtr(vEqC[int]), vBare[*int]),
		vOptProbe("Option[map[string]int]", wStrMap, vPres(func() map[string]int { return map[string]int{"k": 1} }), vEqMap(vEqC[int]), vBare[map[string]int]),
		vOptProbe("Option[any]", wAny, vPres(func() any { return "pre" }, func() any { return []any{1.0} }), vEqAny, vBare[any]),
		vOptProbe("Option[json.RawMessage]", wAny, vPres(func() json.RawMessage { return json.RawMessage(`{"pre":1}`) }), func(a, b json.RawMessage) bool { return bytes.Equal(a, b) }, vBare[json.RawMessage]),
		vUnitProbe(),
		vHolderProbe(),
		vTwinProbe("[]Option[int]", wOptArr,
			[]func() []fp.Option[int]{func() []fp.Option[int] { return nil }, func() []fp.Option[int] { return []fp.Option[int]{vSome(7), vNone[int](), vSome(8)} }},
			[]func() []*int{func() []*int { return nil }, func() []*int { return []*int{vPtr(7), nil, vPtr(8)} }},
			func(l []fp.Option[int], s []*int) bool {
				if len(l) != len(s) {
					return false
				}
				for i := range l {
					if !vEqOpt(vEqC[int])(l[i], vOptOfPtr(s[i], vID[int])) {
						return false
					}
				}
				return true
			}),
		vTwinProbe("map[string]Option[string]", wStrMap,
			[]func() map[string]fp.Option[string]{func() map[string]fp.Option[string] { return nil }, func() map[string]fp.Option[string] {
				return map[string]fp.Option[string]{"k": vSome("old"), "z": vNone[string]()}
			}},
			[]func() map[string]*string{func() map[string]*string { return nil }, func() map[string]*string { return map[string]*string{"k": vPtr("old"), "z": nil} }},
			func(l map[string]fp.Option[string], s map[string]*string) bool {
				if len(l) != len(s) {
					return false
				}
				for k, o := range l {
					p, ok := s[k]
					if !ok || !vEqOpt(vEqC[string])(o, vOptOfPtr(p, vID[string])) {
						return false
					}
				}
				return true
			}),
	}
	node := vOptProbe("Option[*node]", wNodeObj, vPres(func() *vNode { return &vNode{V: 7, Next: vSome(&vNode{V: 8})} }), vEqNode, vRefNode)
	node.deepRec = true
	return append(ps, node)
}

// ---- input generation ---------------------------------------------------------------

const (
	wAny = iota
	wInt
	wStr
	wIntArr
	wPlainObj
	wHolderObj
	wNodeObj
	wOptArr
	wStrMap
)

var vNums = []string{"0", "-0", "1", "-1", "7", "42", "2147483648", "9223372036854775807", "9223372036854775808", "-9223372036854775808", "-9223372036854775809",
	"18446744073709551615", "18446744073709551616", "1e2", "1E+2", "1e400", "-1e400", "1.5", "0.1", "1.0", "100000000000000000000000000000", "1e-400", "0.0000001",
	"12345678901234567890123456789012345678901234567890", "0e0", "-0.0"}

var vStrLits = []string{`""`, `"n"`, `"null"`, `"none"`, `"nul"`, `"x"`, `"\u0000"`, `"\ud800"`, `"😀"`, `"\/"`, `"a\nb"`, `"é"`, `"<>&"`, `" "`, `"\\"`, `"\""`, `"null"`, `"1"`, `"[1]"`}

func vDrawNum(t *rapid.T) string {
	if rapid.IntRange(0, 2).Draw(t, "numkind") == 0 {
		return rapid.SampledFrom(vNums).Draw(t, "num")
	}
	return strconv.Itoa(vGenInt().Draw(t, "int"))
}

func vDrawStrLit(t *rapid.T) string {
	if rapid.IntRange(0, 1).Draw(t, "strkind") == 0 {
		return rapid.SampledFrom(vStrLits).Draw(t, "lit")
	}
	b, _ := json.Marshal(vGenStr().Draw(t, "str"))
	return string(b)
}

type vKeySpec struct {
	name string
	want int
}

var (
	vHolderKeys = []vKeySpec{{"n", wInt}, {"a", wInt}, {"b", wStr}, {"c", wIntArr}, {"d", wInt}, {"p", wInt}, {"s", wStr}, {"a", wInt}, {"c", wIntArr},
		{"A", wInt}, {"N", wInt}, {"P", wInt}, {"B", wStr}, {"ſ", wStr}, {"x", wAny}, {"", wAny}, {"aa", wInt}}
	vPlainKeys = []vKeySpec{{"a", wInt}, {"b", wStr}, {"c", wIntArr}, {"a", wInt}, {"A", wInt}, {"B", wStr}, {"C", wIntArr}, {"x", wAny}}
	vNodeKeys  = []vKeySpec{{"v", wInt}, {"next", wNodeObj}, {"next", wNodeObj}, {"Next", wNodeObj}, {"V", wInt}, {"NEXT", wNodeObj}, {"x", wAny}}
	vAnyKeys   = []vKeySpec{{"a", wAny}, {"b", wAny}, {"k", wAny}, {"n", wAny}, {"null", wAny}, {"", wAny}, {"next", wAny}, {"é", wAny}}
	vMapKeys   = []vKeySpec{{"k", wStr}, {"z", wStr}, {"n", wStr}, {"k", wInt}, {"", wStr}, {"K", wInt}}
)

func vDrawObj(t *rapid.T, keys []vKeySpec, depth int, sp string, maxN int) string {
	n := rapid.IntRange(0, maxN).Draw(t, "members")
	var sb strings.Builder
	sb.WriteString("{" + sp)
	for i := 0; i < n; i++ {
		if i > 0 {
			sb.WriteString("," + sp)
		}
		k := rapid.SampledFrom(keys).Draw(t, "key")
		kb, _ := json.Marshal(k.name)
		sb.Write(kb)
		sb.WriteString(sp + ":" + sp)
		sb.WriteString(vDrawValue(t, k.want, depth-1, sp))
	}
	sb.WriteString(sp + "}")
	return sb.String()
}

func vDrawArr(t *rapid.T, want int, depth int, sp string) string {
	n := rapid.IntRange(0, 4).Draw(t, "elems")
	var sb strings.Builder
	sb.WriteString("[" + sp)
	for i := 0; i < n; i++ {
		if i > 0 {
			sb.WriteString("," + sp)
		}
		sb.WriteString(vDrawValue(t, want, depth-1, sp))
	}
	sb.WriteString(sp + "]")
	return sb.String()
}

// vDrawValue draws the text of one JSON value. want biases the shape (65% as wanted, 15%
// null, 20% anything) so that documents of the right type, of the wrong type and with null
// in every position all occur.
func vDrawValue(t *rapid.T, want int, depth int, sp string) string {
	if want != wAny {
		switch r := rapid.IntRange(0, 19).Draw(t, "bias"); {
		case r < 3:
			return "null"
		case r < 7:
			want = wAny
		}
	}
	switch want {
	case wInt:
		return vDrawNum(t)
	case wStr:
		return vDrawStrLit(t)
	case wIntArr:
		return vDrawArr(t, wInt, 1, sp)
	case wOptArr:
		return vDrawArr(t, wInt, 1, sp)
	case wPlainObj:
		return vDrawObj(t, vPlainKeys, 2, sp, 4)
	case wHolderObj:
		return vDrawObj(t, vHolderKeys, 2, sp, 7)
	case wStrMap:
		return vDrawObj(t, vMapKeys, 2, sp, 4)
	case wNodeObj:
		if depth <= -3 {
			return "null"
		}
		return vDrawObj(t, vNodeKeys, depth, sp, 3)
	}
	hi := 6
	if depth <= 0 {
		hi = 4
	}
	switch rapid.IntRange(0, hi).Draw(t, "vkind") {
	case 0:
		return "null"
	case 1:
		return "true"
	case 2:
		return "false"
	case 3:
		return vDrawNum(t)
	case 4:
		return vDrawStrLit(t)
	case 5:
		return vDrawArr(t, wAny, depth, sp)
	default:
		return vDrawObj(t, vAnyKeys, depth, sp, 3)
	}
}

func vDrawDoc(t *rapid.T, hint int) string {
	sp := rapid.SampledFrom([]string{"", "", "", " ", "\n\t", "\r\n "}).Draw(t, "sp")
	lead := rapid.SampledFrom(vWSs).Draw(t, "lead")
	trail := rapid.SampledFrom(vWSs).Draw(t, "trail")
	if rapid.IntRange(0, 9).Draw(t, "anytop") == 0 {
		hint = wAny
	}
	return lead + vDrawValue(t, hint, 2, sp) + trail
}

var vStructural = []byte("{}[]\",:0123456789-+.eEtrufalsn \t\n\\/\x00\xff\xef\x80")

func vDrawMutation(t *rapid.T, s []byte) []byte {
	s = append([]byte{}, s...)
	nops := rapid.IntRange(1, 2).Draw(t, "nops")
	for i := 0; i < nops; i++ {
		switch rapid.IntRange(0, 6).Draw(t, "op") {
		case 0: // truncate
			s = s[:rapid.IntRange(0, len(s)).Draw(t, "cut")]
		case 1: // overwrite one byte
			if len(s) > 0 {
				s[rapid.IntRange(0, len(s)-1).Draw(t, "pos")] = rapid.SampledFrom(vStructural).Draw(t, "byte")
			}
		case 2: // delete a range
			if len(s) > 0 {
				p := rapid.IntRange(0, len(s)-1).Draw(t, "from")
				q := rapid.IntRange(p, min(len(s), p+6)).Draw(t, "to")
				s = append(s[:p:p], s[q:]...)
			}
		case 3: // insert a byte
			p := rapid.IntRange(0, len(s)).Draw(t, "at")
			c := rapid.SampledFrom(vStructural).Draw(t, "byte")
			s = append(s[:p:p], append([]byte{c}, s[p:]...)...)
		case 4: // duplicate a range
			if len(s) > 0 {
				p := rapid.IntRange(0, len(s)-1).Draw(t, "from")
				q := rapid.IntRange(p, min(len(s), p+12)).Draw(t, "to")
				s = append(s[:q:q], append(append([]byte{}, s[p:q]...), s[q:]...)...)
			}
		case 5: // prefix
			s = append([]byte(rapid.SampledFrom([]string{"\xef\xbb\xbf", " ", "\n", "x", "[", "n", "null", "\x00", "-", "\""}).Draw(t, "prefix")), s...)
		default: // suffix
			s = append(s, rapid.SampledFrom([]string{" ", "\n", "x", "]", "}", ",", "null", "\x00", " null", "\"", "e", "."}).Draw(t, "suffix")...)
		}
	}
	return s
}

var vSpecialDocs = []string{"nul", "nullx", "n", "none", "nil", "NaN", "null null", "nulL", "Null", "NULL", "nul\x00", "n\x00ll", "nu", "nulll", "null,", "null]", "-null",
	`"n"`, `"null"`, `"none"`, `"n`, `"nul`, `"n\"`, ` null`, "null ", "\xef\xbb\xbfnull", "\tnull\n", "[null]", `{"a":null}`, "[nul]", `{"a":nul}`, `{"a":n}`, `{"n":null}`, `{null:1}`,
	"", " ", "\n", "-", "+1", "01", ".5", "1.", "0x10", "Infinity", "-Infinity", "1e", "1e+", "--1", "tru", "true", "fals", "false", "truefalse", "t", "f", "{", "}", "[", "]", "[}", "{]", ",", ":", `"`, `\`, `{"a"}`, `{"a":}`, `{"a":1,}`, `[1,]`, `[,1]`, `{,}`, `{"a":1 "b":2}`, "[1 2]", `'a'`, "/*c*/1", "1//c", "\x00", "\xff", "1\x00", "[1]\x00"}

// vDrawInput draws one decoder input for a target with the given shape hint.
func vDrawInput(t *rapid.T, hint int) ([]byte, string) {
	switch k := rapid.IntRange(0, 11).Draw(t, "input"); {
	case k == 0:
		return rapid.SliceOfN(rapid.Byte(), 0, 24).Draw(t, "bytes"), "random-bytes"
	case k == 1:
		return rapid.SliceOfN(rapid.SampledFrom(vStructural), 0, 24).Draw(t, "jsonish"), "json-alphabet"
	case k <= 6:
		return []byte(vDrawDoc(t, hint)), "generated-doc"
	case k <= 10:
		return vDrawMutation(t, []byte(vDrawDoc(t, hint))), "mutated-doc"
	default:
		return []byte(rapid.SampledFrom(vSpecialDocs).Draw(t, "special")), "special"
	}
}

// ---- sub-checks -----------------------------------------------------------------------

func vSig(p vProbe, clause string) string { return "C15|" + p.name + "|decode-" + clause }

func TestDecode(t *testing.T) {
	for _, p := range vProbes() {
		p := p
		for _, clause := range vClauses {
			clause := clause
			if clause == vcLeaves && p.name == "Unit" {
				continue // one value: nothing to observe
			}
			var rule string
			switch clause {
			case vcPanic:
				rule = "json.Unmarshal must not panic; non-trivial iff the input is valid JSON or its syntax error lies behind the first byte"
			case vcLeaves:
				rule = "when json.Unmarshal returns an error the target equals its pre-filled value (for the struct target: equals the model in which the failing option field and everything after it are untouched); non-trivial iff an error is expected, the input gets past its first byte and the pre-filled target is not the zero value"
			case vcAgrees:
				rule = "error iff the reference (encoding/json on the bare element type / pointer twin / member-by-member model) errs; on success None for null, Some(reference value) otherwise; non-trivial iff the input is valid JSON"
			}
			kit.Check(t, p.name+"/"+clause, "target "+p.name+" pre-filled with one of its fixed values; input: random bytes (1/12), random bytes over the JSON alphabet (1/12), a generated document biased to the target's shape with wrong types, nulls, duplicate and case-variant keys, odd numbers and whitespace (5/12), a 1-2 step mutation of such a document: truncate, overwrite, delete, insert, duplicate a range, prefix/suffix incl. BOM (4/12), a fixed list of near-null and malformed documents (1/12); "+rule+"; distinct by (prefill, input bytes)",
				kit.Opt{}, func(rt *rapid.T, rec *kit.Rec) {
					b, kind := vDrawInput(rt, p.hint)
					pre := rapid.IntRange(0, p.nPre-1).Draw(rt, "pre")
					vs, class := p.run(b, pre)
					var nt bool
					switch clause {
					case vcPanic:
						nt = vPastFirst(b)
					case vcLeaves:
						nt = (class == "invalid" || class == "reject") && vPastFirst(b) && p.nonZero(pre)
					case vcAgrees:
						nt = class != "invalid" && class != "panic"
					}
					rec.Case(nt, fmt.Sprintf("pre%d|%q", pre, b))
					rec.Label(class)
					rec.Label("in:" + kind)
					for _, v := range vs {
						if v.clause == clause {
							rec.Failf(rt, vSig(p, clause), "%s", v.msg)
						}
					}
				})
		}
	}
}

func vDrawDeep(t *rapid.T, maxDepth int, limit bool) []byte {
	type br struct{ open, close string }
	b := rapid.SampledFrom([]br{{"[", "]"}, {`{"a":`, "}"}, {`{"next":`, "}"}, {`{"v":1,"next":`, "}"}, {`[{"c":`, "}]"}, {`{"Next":`, "}"}}).Draw(t, "bracket")
	var d int
	switch k := rapid.IntRange(0, 9).Draw(t, "dkind"); {
	case k < 4:
		d = rapid.IntRange(1, 40).Draw(t, "depth")
	case k < 9 || !limit:
		d = rapid.IntRange(40, maxDepth).Draw(t, "depth")
	default:
		d = rapid.SampledFrom([]int{4999, 5000, 5001, 9999, 10000, 10001}).Draw(t, "depth")
	}
	core := rapid.SampledFrom([]string{"1", "null", `"x"`, "[]", "{}", "", "1e400", "tru", `{"v":2}`, "[1,2]"}).Draw(t, "core")
	closers := d
	switch rapid.IntRange(0, 5).Draw(t, "closers") {
	case 0:
		closers = d - 1
	case 1:
		closers = 0
	case 2:
		closers = d + 1
	}
	return []byte(strings.Repeat(b.open, d) + core + strings.Repeat(b.close, closers))
}

func TestDecodeDeep(t *testing.T) {
	for _, p := range vProbes() {
		p := p
		maxDepth := kit.Pick(400, 2000)
		kit.Check(t, p.name, fmt.Sprintf("target %s; input: a bracket pattern ([ / {\"a\": / {\"next\": / ...) nested 1..%d deep around a small core, closed completely, one short, not at all or one too many (for targets whose nesting does not re-enter the library also depths around 5000 and encoding/json's limit 10000); all three clauses of the decode sub-checks at once; non-trivial iff depth >= 40; distinct by input", p.name, maxDepth),
			kit.Opt{Weight: 0.05, MinChecks: 6}, func(rt *rapid.T, rec *kit.Rec) {
				b := vDrawDeep(rt, maxDepth, !p.deepRec)
				pre := rapid.IntRange(0, p.nPre-1).Draw(rt, "pre")
				nt := bytes.Count(b, []byte("[")) >= 40 || bytes.Count(b, []byte("{")) >= 40
				rec.Case(nt, fmt.Sprintf("pre%d|len%d|%q", pre, len(b), clipBytes(b)))
				vs, class := p.run(b, pre)
				rec.Label(class)
				for _, v := range vs {
					rec.Failf(rt, vSig(p, v.clause), "%s", clipStr(v.msg))
				}
			})
	}
}

func clipBytes(b []byte) []byte {
	if len(b) > 120 {
		return append(append([]byte{}, b[:60]...), b[len(b)-60:]...)
	}
	return b
}

func clipStr(s string) string {
	if len(s) > 1500 {
		return s[:700] + " … " + s[len(s)-700:]
	}
	return s
}

// ---- exhaustive single-step mutations of fixed seed documents ---------------------------

var vSeeds = []string{`42`, `-7`, `null`, ` 12 `, `1e2`, `"n"`, `"none"`, `"a\"b\\n"`, `"éx"`, `[1,2,3]`, `[]`, `[1,null,2]`, `[ 1 , 2 ]`,
	`{"a":1,"b":"x","c":[1,2]}`, `{"a":null,"b":null}`, `{"n":1,"a":2,"b":"x","c":[1,2],"d":3,"p":4,"s":"y"}`, `{"a":null,"b":null,"c":null,"d":null,"p":null}`,
	`{"a":1,"a":null,"A":2}`, `{"d":1,"c":[1,"x"],"a":5}`, `{"v":1,"next":{"v":2,"next":null}}`, `{"k":"v","n":null}`, `{"a":[1,"x",null,true],"b":{"c":1.5}}`, `true`, `1.5`}

var vFlips = []byte("\"{}[],:n0 \x00\xff\\-")

func TestDecodeExhaustive(t *testing.T) {
	for _, p := range vProbes() {
		p := p
		kit.Plain(t, p.name, fmt.Sprintf("target %s, every prefill; inputs: each of %d fixed seed documents (right and wrong shape for the target) truncated at every position and with every single byte overwritten by each of %q; all three decode clauses; non-trivial iff the input gets past its first byte; distinct by (prefill, input)", p.name, len(vSeeds), vFlips),
			func(t *testing.T, rec *kit.Rec) {
				try := func(b []byte) {
					for pre := 0; pre < p.nPre; pre++ {
						rec.Case(vPastFirst(b), fmt.Sprintf("pre%d|%q", pre, b))
						vs, class := p.run(b, pre)
						rec.Label(class)
						for _, v := range vs {
							rec.PlainFail(t, vSig(p, v.clause), "%s", v.msg)
						}
					}
				}
				for _, s := range vSeeds {
					for cut := 0; cut <= len(s); cut++ {
						try([]byte(s[:cut]))
					}
					for pos := 0; pos < len(s); pos++ {
						for _, c := range vFlips {
							if s[pos] == c {
								continue
							}
							m := []byte(s)
							m[pos] = c
							try(m)
						}
					}
				}
			})
	}
}

// FuzzDecode is an optional native fuzz target (not run by the driver):
//
//	go test -tags verif -run '^$' -fuzz FuzzDecode ./c15
func FuzzDecode(f *testing.F) {
	for _, s := range vSeeds {
		f.Add([]byte(s))
	}
	for _, s := range vSpecialDocs {
		f.Add([]byte(s))
	}
	probes := vProbes()
	f.Fuzz(func(t *testing.T, b []byte) {
		if len(b) > 1<<16 {
			return
		}
		for _, p := range probes {
			for pre := 0; pre < p.nPre; pre++ {
				vs, _ := p.run(b, pre)
				for _, v := range vs {
					t.Fatalf("[sig=%s] %s", vSig(p, v.clause), v.msg)
				}
			}
		}
	})
}
