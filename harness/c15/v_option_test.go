package c15

import (
	"bytes"
	"encoding/json"
	"math"
	"testing"
	"time"

	"github.com/csgura/fp"
	"pgregory.net/rapid"

	"verifharness/kit"
)

// vTy describes one element type T of fp.Option[T]: a generator of values whose own
// encoding/json encoding is faithful and not null, an observational equality and the
// "rich" predicate of the non-trivial rule.
type vTy[T any] struct {
	name     string
	gen      *rapid.Generator[T]
	eq       func(a, b T) bool
	rich     func(T) bool
	richRule string
}

// vFaithful re-establishes the side condition of the statement on the drawn value with
// encoding/json alone (for T that contain options themselves, the inner options take part).
func vFaithful[T any](c vTy[T], v T) (enc []byte, why string) {
	enc, err := json.Marshal(v)
	if err != nil {
		return nil, "bare value is not encodable: " + err.Error()
	}
	if vIsNullDoc(enc) {
		return nil, "bare value encodes to null"
	}
	var back T
	if err := json.Unmarshal(enc, &back); err != nil {
		return nil, "bare value does not decode from its own encoding " + string(enc) + ": " + err.Error()
	}
	if !c.eq(v, back) {
		return nil, "bare value does not survive its own round trip through " + string(enc)
	}
	return enc, ""
}

var vWSs = []string{"", "", "", " ", "\n", "\t", "\r\n", "  \t "}

func vOptionChecks[T any](t *testing.T, c vTy[T]) {
	t.Helper()
	name := "Option[" + c.name + "]"
	sigB, sigR, sigD, sigF := "C15|"+name+"|bytes", "C15|"+name+"|roundtrip", "C15|"+name+"|decode-enc", "C15|"+name+"|bare-value-not-faithful"
	show := func(v T) string { return vEnc(v) }
	eqO := vEqOpt(c.eq)
	ntRule := "non-trivial iff x = Some(v) with " + c.richRule + "; distinct by the printed value"

	kit.Check(t, name+"/bytes", "x: None (1/5) or Some(v), v a "+c.name+" whose own encoding is faithful and not null; json.Marshal(x) and json.Marshal(&x) compared byte for byte with `null` resp. encoding/json on the bare v; "+ntRule, kit.Opt{}, func(rt *rapid.T, rec *kit.Rec) {
		x := vGenOpt(c.gen).Draw(rt, "x")
		rec.Case(x.IsDefined() && c.rich(x.Get()), vShowOpt(x, show))
		want := []byte("null")
		if x.IsDefined() {
			rec.Label("some")
			enc, why := vFaithful(c, x.Get())
			if why != "" {
				rec.Failf(rt, sigF, "%s (generator or inner option at fault): %s", vShowOpt(x, show), why)
			}
			want = enc
		} else {
			rec.Label("none")
		}
		var got, gotP []byte
		var err, errP error
		rec.Guard(rt, sigB, func() {
			got, err = json.Marshal(x)
			gotP, errP = json.Marshal(&x)
		})
		if err != nil || errP != nil {
			rec.Failf(rt, sigB, "json.Marshal(%s) failed: %v / via pointer: %v", vShowOpt(x, show), err, errP)
		}
		if !bytes.Equal(got, want) {
			rec.Failf(rt, sigB, "json.Marshal(%s) = %q, want %q", vShowOpt(x, show), got, want)
		}
		if !bytes.Equal(gotP, want) {
			rec.Failf(rt, sigB, "json.Marshal(&%s) = %q, want %q", vShowOpt(x, show), gotP, want)
		}
	})

	kit.Check(t, name+"/roundtrip", "x as in bytes; target pre-filled with another drawn option; json.Unmarshal(json.Marshal(x), &target) must succeed and leave target equal to x; "+ntRule, kit.Opt{}, func(rt *rapid.T, rec *kit.Rec) {
		x := vGenOpt(c.gen).Draw(rt, "x")
		pre := vGenOpt(c.gen).Draw(rt, "pre")
		rec.Case(x.IsDefined() && c.rich(x.Get()), vShowOpt(x, show)+" into "+vShowOpt(pre, show))
		if x.IsDefined() {
			if _, why := vFaithful(c, x.Get()); why != "" {
				rec.Failf(rt, sigF, "%s (generator or inner option at fault): %s", vShowOpt(x, show), why)
			}
		}
		if pre.IsDefined() {
			rec.Label("into-some")
		} else {
			rec.Label("into-none")
		}
		target := pre
		var b []byte
		var merr, uerr error
		rec.Guard(rt, sigR, func() {
			b, merr = json.Marshal(x)
			if merr == nil {
				uerr = json.Unmarshal(b, &target)
			}
		})
		if merr != nil {
			rec.Failf(rt, sigR, "json.Marshal(%s) failed: %v", vShowOpt(x, show), merr)
		}
		if uerr != nil {
			rec.Failf(rt, sigR, "json.Unmarshal(%q) of the encoding of %s failed: %v", b, vShowOpt(x, show), uerr)
		}
		if !eqO(target, x) {
			rec.Failf(rt, sigR, "round trip of %s through %q gives %s (target was %s)", vShowOpt(x, show), b, vShowOpt(target, show), vShowOpt(pre, show))
		}
	})

	kit.Check(t, name+"/decode-enc", "x as in bytes; the document is produced by encoding/json from the bare value (`null` for None), wrapped in drawn JSON whitespace; decoding it into a pre-filled option must give x; "+ntRule, kit.Opt{}, func(rt *rapid.T, rec *kit.Rec) {
		x := vGenOpt(c.gen).Draw(rt, "x")
		pre := vGenOpt(c.gen).Draw(rt, "pre")
		lead := rapid.SampledFrom(vWSs).Draw(rt, "lead")
		trail := rapid.SampledFrom(vWSs).Draw(rt, "trail")
		doc := []byte("null")
		if x.IsDefined() {
			enc, why := vFaithful(c, x.Get())
			if why != "" {
				rec.Failf(rt, sigF, "%s (generator or inner option at fault): %s", vShowOpt(x, show), why)
			}
			doc = enc
		}
		doc = append(append([]byte(lead), doc...), trail...)
		rec.Case(x.IsDefined() && c.rich(x.Get()), string(doc)+" into "+vShowOpt(pre, show))
		target := pre
		var uerr error
		rec.Guard(rt, sigD, func() { uerr = json.Unmarshal(doc, &target) })
		if uerr != nil {
			rec.Failf(rt, sigD, "json.Unmarshal(%q) into Option failed: %v", doc, uerr)
		}
		if !eqO(target, x) {
			rec.Failf(rt, sigD, "json.Unmarshal(%q) gives %s, want %s (target was %s)", doc, vShowOpt(target, show), vShowOpt(x, show), vShowOpt(pre, show))
		}
	})
}

func TestOption(t *testing.T) {
	vOptionChecks(t, vTy[int]{"int", vGenInt(), vEqC[int], func(v int) bool { return v > math.MaxInt32 || v < math.MinInt32 }, "|v| beyond 32 bits"})
	vOptionChecks(t, vTy[int64]{"int64", vGenInt64(), vEqC[int64], func(v int64) bool { return v > 1<<53 || v < -(1<<53) }, "|v| > 2^53 (not exactly representable as a float64)"})
	vOptionChecks(t, vTy[uint64]{"uint64", vGenUint64(), vEqC[uint64], func(v uint64) bool { return v > 1<<53 }, "v > 2^53"})
	vOptionChecks(t, vTy[float64]{"float64", vGenFloat(), vEqC[float64], func(v float64) bool { return v != math.Trunc(v) || math.Abs(v) >= 1e21 }, "v not an integer or |v| >= 1e21 (exponent notation)"})
	vOptionChecks(t, vTy[bool]{"bool", rapid.Bool(), vEqC[bool], func(bool) bool { return true }, "any v"})
	vOptionChecks(t, vTy[string]{"string", vGenStr(), vEqC[string], vNeedsEscape, "v containing a rune encoding/json escapes (quote, backslash, control, <>&, U+2028/9)"})
	vOptionChecks(t, vTy[[]int]{"[]int", vGenInts(), vEqSlice(vEqC[int]), func(v []int) bool { return len(v) > 0 }, "v non-empty"})
	vOptionChecks(t, vTy[[]byte]{"[]byte", rapid.Map(rapid.SliceOfN(rapid.Byte(), 0, 9), vNonNil[byte]), vEqSlice(vEqC[byte]), func(v []byte) bool { return len(v) > 0 }, "v non-empty"})
	vOptionChecks(t, vTy[map[string]int]{"map[string]int", vGenIntMap(), vEqMap(vEqC[int]), func(v map[string]int) bool {
		for k := range v {
			if vNeedsEscape(k) {
				return true
			}
		}
		return false
	}, "a key needing escapes"})
	vOptionChecks(t, vTy[vSmall]{"struct", vGenSmall(), vEqSmall, func(v vSmall) bool { return v.D.IsDefined() || v.E.IsDefined() || vNeedsEscape(v.B) }, "a defined inner option field or a string field needing escapes"})
	vOptionChecks(t, vTy[*int]{"*int", rapid.Custom(func(t *rapid.T) *int { v := vGenInt().Draw(t, "v"); return &v }), vEqPtr(vEqC[int]), func(*int) bool { return true }, "any (non-nil) v"})
	vOptionChecks(t, vTy[fp.Option[int]]{"Option[int]", rapid.Map(vGenInt(), vSome[int]), vEqOpt(vEqC[int]), func(fp.Option[int]) bool { return true }, "any v = Some(i) (Some(None) encodes to null and is outside the statement)"})
	vOptionChecks(t, vTy[fp.Option[fp.Option[string]]]{"Option[Option[string]]", rapid.Map(vGenStr(), func(s string) fp.Option[fp.Option[string]] { return vSome(vSome(s)) }),
		vEqOpt(vEqOpt(vEqC[string])), func(fp.Option[fp.Option[string]]) bool { return true }, "any v = Some(Some(s))"})
	vOptionChecks(t, vTy[fp.Seq[string]]{"fp.Seq[string]", rapid.Map(rapid.SliceOfN(vGenStr(), 0, 4), func(s []string) fp.Seq[string] { return fp.Seq[string](vNonNil(s)) }),
		func(a, b fp.Seq[string]) bool { return vEqSlice(vEqC[string])(a, b) }, func(v fp.Seq[string]) bool { return len(v) > 0 }, "v non-empty"})
	vOptionChecks(t, vTy[[]fp.Option[string]]{"[]Option[string]", rapid.Map(rapid.SliceOfN(vGenOpt(vGenStr()), 0, 4), vNonNil[fp.Option[string]]),
		vEqSlice(vEqOpt(vEqC[string])), func(v []fp.Option[string]) bool {
			for _, e := range v {
				if e.IsEmpty() {
					return true
				}
			}
			return false
		}, "v containing a None element (a null inside the document)"})
	vOptionChecks(t, vTy[map[string]fp.Option[int]]{"map[string]Option[int]", rapid.Map(rapid.MapOfN(vGenKey(), vGenOpt(vGenInt()), 0, 4), func(m map[string]fp.Option[int]) map[string]fp.Option[int] {
		if m == nil {
			return map[string]fp.Option[int]{}
		}
		return m
	}), vEqMap(vEqOpt(vEqC[int])), func(v map[string]fp.Option[int]) bool {
		for _, e := range v {
			if e.IsEmpty() {
				return true
			}
		}
		return false
	}, "v containing a None value"})
	vOptionChecks(t, vTy[fp.Tuple2[int, string]]{"fp.Tuple2[int,string]", rapid.Custom(func(t *rapid.T) fp.Tuple2[int, string] {
		return fp.Tuple2[int, string]{I1: vGenInt().Draw(t, "i1"), I2: vGenStr().Draw(t, "i2")}
	}), vEqC[fp.Tuple2[int, string]], func(v fp.Tuple2[int, string]) bool { return vNeedsEscape(v.I2) }, "I2 needing escapes"})
	vOptionChecks(t, vTy[time.Time]{"time.Time", vGenTime(), func(a, b time.Time) bool { return a.Equal(b) }, func(v time.Time) bool { return v.Nanosecond() != 0 }, "a fractional second (compared with Time.Equal)"})
	vOptionChecks(t, vTy[json.RawMessage]{"json.RawMessage", vGenRaw(), func(a, b json.RawMessage) bool { return bytes.Equal(a, b) }, func(v json.RawMessage) bool { return len(v) > 0 && (v[0] == '[' || v[0] == '{' || v[0] == '"') }, "a string, array or object message (compact, as emitted by encoding/json)"})
	vOptionChecks(t, vTy[any]{"any", vGenAny(2), vEqAny, func(v any) bool {
		switch v.(type) {
		case []any, map[string]any:
			return true
		}
		return false
	}, "v a []any or map[string]any (JSON-native dynamic values only)"})
}
