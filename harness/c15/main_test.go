package c15

import (
	"testing"

	"verifharness/kit"
	"verifharness/scratch"
)

func TestMain(m *testing.M) { kit.MainWith(m, scratch.Cleanup) }
