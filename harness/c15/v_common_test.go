package c15

// Shared helpers of the hand-written half of C15 (fp.Option, fp.Unit, the other
// hand-written MarshalJSON methods, options inside hand-declared containers and
// the arbitrary-bytes decoder clause). The @fp.Json generated-struct clause lives
// in other files of this package.

import (
	"bytes"
	"encoding/json"
	"fmt"
	"math"
	"sort"
	"strings"
	"time"
	"unicode/utf8"

	"github.com/csgura/fp"
	"pgregory.net/rapid"
)

// ---- Option helpers -----------------------------------------------------------

func vSome[T any](v T) fp.Option[T] { return fp.Some(v) }
func vNone[T any]() fp.Option[T]    { return fp.None[T]() }

// vGenOpt draws None with probability 1/5, Some(g) otherwise.
func vGenOpt[T any](g *rapid.Generator[T]) *rapid.Generator[fp.Option[T]] {
	return rapid.Custom(func(t *rapid.T) fp.Option[T] {
		if rapid.IntRange(0, 4).Draw(t, "none") == 0 {
			return vNone[T]()
		}
		return vSome(g.Draw(t, "some"))
	})
}

func vEqOpt[T any](eq func(a, b T) bool) func(a, b fp.Option[T]) bool {
	return func(a, b fp.Option[T]) bool {
		if a.IsDefined() != b.IsDefined() {
			return false
		}
		return !a.IsDefined() || eq(a.Get(), b.Get())
	}
}

// vEnc is the encoding/json rendering of a bare (non-library) value, used as the
// canonical printable descriptor of generated values (map keys are sorted by
// encoding/json, so it is deterministic).
func vEnc(v any) string {
	b, err := json.Marshal(v)
	if err != nil {
		return "!" + err.Error()
	}
	return string(b)
}

func vShowOpt[T any](o fp.Option[T], show func(T) string) string {
	if o.IsDefined() {
		return "Some " + show(o.Get())
	}
	return "None"
}

func vEqC[T comparable](a, b T) bool { return a == b }

func vEqSlice[T any](eq func(a, b T) bool) func(a, b []T) bool {
	// nil and empty are not distinguished: the statement asks for an equal value.
	return func(a, b []T) bool {
		if len(a) != len(b) {
			return false
		}
		for i := range a {
			if !eq(a[i], b[i]) {
				return false
			}
		}
		return true
	}
}

func vEqMap[V any](eq func(a, b V) bool) func(a, b map[string]V) bool {
	return func(a, b map[string]V) bool {
		if len(a) != len(b) {
			return false
		}
		for k, x := range a {
			y, ok := b[k]
			if !ok || !eq(x, y) {
				return false
			}
		}
		return true
	}
}

func vEqPtr[T any](eq func(a, b T) bool) func(a, b *T) bool {
	return func(a, b *T) bool {
		if a == nil || b == nil {
			return a == nil && b == nil
		}
		return eq(*a, *b)
	}
}

func vSortedKeys[V any](m map[string]V) []string {
	ks := make([]string, 0, len(m))
	for k := range m {
		ks = append(ks, k)
	}
	sort.Strings(ks)
	return ks
}

// ---- value generators (only values whose own JSON encoding is faithful and not null)

var vSpecialRunes = []rune{'"', '\\', '/', '\b', '\f', '\n', '\r', '\t', 0, 1, 0x1f, 0x7f, '<', '>', '&', 0x2028, 0x2029,
	0xFFFD, 0x1F600, 0x1F468, 0x200D, 'é', 'n', 'u', 'l', ' ', '{', '}', '[', ']', ',', ':', 0x10FFFF, 0xD7FF, 0xE000, 'ſ', 'K', 'a', 'Z', '0', '9', '-', '.', 'e'}

var vWords = []string{"null", "none", "n", "nil", "true", "false", "1", "-0", "[]", "{}", "\"quoted\"", "\\u0000", "</script>", "a&b", "", " ", "  ", "null\n"}

// vGenStr draws arbitrary valid UTF-8 strings, heavy on the runes encoding/json escapes.
func vGenStr() *rapid.Generator[string] {
	return rapid.Custom(func(t *rapid.T) string {
		var s string
		switch rapid.IntRange(0, 5).Draw(t, "skind") {
		case 0:
			s = rapid.StringN(0, 12, -1).Draw(t, "any")
		case 1:
			s = rapid.SampledFrom(vWords).Draw(t, "word")
		default:
			n := rapid.IntRange(0, 8).Draw(t, "n")
			var sb strings.Builder
			for i := 0; i < n; i++ {
				sb.WriteRune(rapid.SampledFrom(vSpecialRunes).Draw(t, "r"))
			}
			s = sb.String()
		}
		if !utf8.ValidString(s) {
			s = strings.ToValidUTF8(s, "?")
		}
		return s
	})
}

// vNeedsEscape reports whether encoding/json has to escape something in s.
func vNeedsEscape(s string) bool {
	for _, r := range s {
		if r < 0x20 || r == '"' || r == '\\' || r == '<' || r == '>' || r == '&' || r == 0x2028 || r == 0x2029 {
			return true
		}
	}
	return false
}

func vGenInt() *rapid.Generator[int] {
	return rapid.OneOf(rapid.IntRange(-3, 8), rapid.Int(), rapid.IntRange(math.MinInt, math.MinInt32), rapid.IntRange(math.MaxInt32, math.MaxInt),
		rapid.SampledFrom([]int{math.MaxInt, math.MinInt, 1 << 53, 1<<53 + 1, -(1 << 31), 1 << 32}))
}

func vGenInt64() *rapid.Generator[int64] {
	return rapid.OneOf(rapid.Int64(), rapid.Int64Range(math.MinInt64, -(1<<53)), rapid.Int64Range(1<<53, math.MaxInt64), rapid.SampledFrom([]int64{math.MaxInt64, math.MinInt64, math.MaxInt64 - 1, math.MinInt64 + 1, 0, -1, 1<<53 + 1, -(1<<53 + 1)}))
}

func vGenUint64() *rapid.Generator[uint64] {
	return rapid.OneOf(rapid.Uint64(), rapid.Uint64Range(1<<53, math.MaxUint64), rapid.Uint64Range(1<<63, math.MaxUint64), rapid.SampledFrom([]uint64{math.MaxUint64, math.MaxUint64 - 1, 0, 1, 1 << 63, 1<<63 - 1, 1<<53 + 1}))
}

// vGenFloat draws finite float64 values only (NaN and ±Inf are not encodable). -0 is
// included and compared with == (so it equals +0; the sign of zero is not demanded).
func vGenFloat() *rapid.Generator[float64] {
	return rapid.Custom(func(t *rapid.T) float64 {
		var f float64
		if rapid.IntRange(0, 2).Draw(t, "fkind") == 0 {
			f = rapid.SampledFrom([]float64{0, math.Copysign(0, -1), 1, -1, 0.1, 1.5, math.MaxFloat64, -math.MaxFloat64, math.SmallestNonzeroFloat64,
				1e21, 1e21 - 65536, 1e-6, 9.999999e-7, 1e-7, 1 << 53, 1<<53 + 2, 123456789.125, 1e300, 5e-324, 2.2250738585072014e-308, math.Pi}).Draw(t, "fs")
		} else {
			f = rapid.Float64().Draw(t, "f")
		}
		if math.IsNaN(f) || math.IsInf(f, 0) {
			f = 0.5
		}
		return f
	})
}

func vNonNil[T any](s []T) []T {
	if s == nil {
		return []T{}
	}
	return s
}

func vGenInts() *rapid.Generator[[]int] {
	return rapid.Map(rapid.SliceOfN(vGenInt(), 0, 5), vNonNil[int])
}

func vGenKey() *rapid.Generator[string] {
	return rapid.OneOf(rapid.SampledFrom([]string{"a", "b", "k", "", "null", "A", "é", "\"", "<k>", "n"}), vGenStr())
}

func vGenIntMap() *rapid.Generator[map[string]int] {
	return rapid.Map(rapid.MapOfN(vGenKey(), vGenInt(), 0, 4), func(m map[string]int) map[string]int {
		if m == nil {
			return map[string]int{}
		}
		return m
	})
}

// vGenTime draws instants in years 2..9998 with nanoseconds, in UTC or a fixed zone whose
// offset is a whole number of minutes (RFC 3339 cannot express anything else).
func vGenTime() *rapid.Generator[time.Time] {
	return rapid.Custom(func(t *rapid.T) time.Time {
		sec := rapid.Int64Range(-62135596800+400*86400, 253402300799-400*86400).Draw(t, "sec")
		nsec := rapid.OneOf(rapid.Just(int64(0)), rapid.Int64Range(0, 999999999), rapid.SampledFrom([]int64{1, 999999999, 500000000, 1000})).Draw(t, "nsec")
		tm := time.Unix(sec, nsec).UTC()
		if rapid.Bool().Draw(t, "zone") {
			off := rapid.IntRange(-14*60, 14*60).Draw(t, "offmin")
			tm = tm.In(time.FixedZone("", off*60))
		}
		return tm
	})
}

// vSmall is the "small struct" used as T of fp.Option[T]; it contains options itself.
type vSmall struct {
	A int               `json:"a"`
	B string            `json:"b,omitempty"`
	C bool              `json:"c"`
	D fp.Option[string] `json:"d"`
	E fp.Option[int]    `json:"e,omitempty"`
}

func vEqSmall(a, b vSmall) bool {
	return a.A == b.A && a.B == b.B && a.C == b.C && vEqOpt(vEqC[string])(a.D, b.D) && vEqOpt(vEqC[int])(a.E, b.E)
}

func vGenSmall() *rapid.Generator[vSmall] {
	return rapid.Custom(func(t *rapid.T) vSmall {
		return vSmall{
			A: vGenInt().Draw(t, "A"),
			B: vGenStr().Draw(t, "B"),
			C: rapid.Bool().Draw(t, "C"),
			D: vGenOpt(vGenStr()).Draw(t, "D"),
			E: vGenOpt(vGenInt()).Draw(t, "E"),
		}
	})
}

// vPlain has no library types in it: the reference decoding of fp.Option[vPlain] is
// encoding/json on the bare struct.
type vPlain struct {
	A int    `json:"a"`
	B string `json:"b"`
	C []int  `json:"c,omitempty"`
}

func vEqPlain(a, b vPlain) bool {
	return a.A == b.A && a.B == b.B && vEqSlice(vEqC[int])(a.C, b.C)
}

// vGenRaw draws a compact, HTML-escaped, non-null JSON document (the output of
// encoding/json on a drawn bare value): exactly the raw messages that survive a
// Marshal unchanged.
func vGenRaw() *rapid.Generator[json.RawMessage] {
	return rapid.Custom(func(t *rapid.T) json.RawMessage {
		var v any
		switch rapid.IntRange(0, 5).Draw(t, "rkind") {
		case 0:
			v = vGenInt().Draw(t, "i")
		case 1:
			v = vGenStr().Draw(t, "s")
		case 2:
			v = vGenInts().Draw(t, "is")
		case 3:
			v = vGenIntMap().Draw(t, "m")
		case 4:
			v = rapid.Bool().Draw(t, "b")
		default:
			v = []any{nil, vGenStr().Draw(t, "s"), map[string]any{"n": nil, "x": vGenFloat().Draw(t, "f")}}
		}
		b, err := json.Marshal(v)
		if err != nil {
			panic(err)
		}
		return json.RawMessage(b)
	})
}

// vGenAny draws values of the shapes encoding/json itself produces when decoding into `any`
// (float64, string, bool, []any, map[string]any), never nil at the top.
func vGenAny(depth int) *rapid.Generator[any] {
	return rapid.Custom(func(t *rapid.T) any {
		hi := 4
		if depth <= 0 {
			hi = 2
		}
		switch rapid.IntRange(0, hi).Draw(t, "akind") {
		case 0:
			return vGenFloat().Draw(t, "f")
		case 1:
			return vGenStr().Draw(t, "s")
		case 2:
			return rapid.Bool().Draw(t, "b")
		case 3:
			n := rapid.IntRange(0, 3).Draw(t, "n")
			out := make([]any, 0, n)
			for i := 0; i < n; i++ {
				if rapid.IntRange(0, 4).Draw(t, "nil") == 0 {
					out = append(out, nil)
				} else {
					out = append(out, vGenAny(depth-1).Draw(t, "e"))
				}
			}
			return out
		default:
			n := rapid.IntRange(0, 3).Draw(t, "n")
			out := map[string]any{}
			for i := 0; i < n; i++ {
				k := vGenKey().Draw(t, "k")
				if rapid.IntRange(0, 4).Draw(t, "nil") == 0 {
					out[k] = nil
				} else {
					out[k] = vGenAny(depth-1).Draw(t, "v")
				}
			}
			return out
		}
	})
}

func vEqAny(a, b any) bool {
	switch x := a.(type) {
	case nil:
		return b == nil
	case float64:
		y, ok := b.(float64)
		return ok && x == y
	case string:
		y, ok := b.(string)
		return ok && x == y
	case bool:
		y, ok := b.(bool)
		return ok && x == y
	case []any:
		y, ok := b.([]any)
		return ok && vEqSlice(vEqAny)(x, y)
	case map[string]any:
		y, ok := b.(map[string]any)
		return ok && vEqMap(vEqAny)(x, y)
	}
	return false
}

// ---- JSON document helpers ------------------------------------------------------

func vIsWS(c byte) bool { return c == ' ' || c == '\t' || c == '\r' || c == '\n' }

func vTrimWS(b []byte) []byte {
	for len(b) > 0 && vIsWS(b[0]) {
		b = b[1:]
	}
	for len(b) > 0 && vIsWS(b[len(b)-1]) {
		b = b[:len(b)-1]
	}
	return b
}

// vIsNullDoc: b is a syntactically valid document consisting of the literal null.
func vIsNullDoc(b []byte) bool { return bytes.Equal(vTrimWS(b), []byte("null")) }

// vPastFirst: the input is valid JSON, or the syntax error is detected after at least one
// byte of the document has been accepted ("malformed inputs that get past the first byte").
func vPastFirst(b []byte) bool {
	var v any
	err := json.Unmarshal(b, &v)
	if err == nil {
		return true
	}
	if se, ok := err.(*json.SyntaxError); ok {
		return se.Offset > 1
	}
	return true
}

type vPair struct {
	key string
	raw json.RawMessage
}

// vPairs splits a valid JSON object document into its members in document order
// (duplicates kept), using encoding/json's tokenizer only.
func vPairs(b []byte) ([]vPair, error) {
	dec := json.NewDecoder(bytes.NewReader(b))
	tok, err := dec.Token()
	if err != nil {
		return nil, err
	}
	if d, ok := tok.(json.Delim); !ok || d != '{' {
		return nil, fmt.Errorf("not an object")
	}
	var out []vPair
	for dec.More() {
		kt, err := dec.Token()
		if err != nil {
			return nil, err
		}
		k, ok := kt.(string)
		if !ok {
			return nil, fmt.Errorf("non-string key")
		}
		var raw json.RawMessage
		if err := dec.Decode(&raw); err != nil {
			return nil, err
		}
		out = append(out, vPair{k, append(json.RawMessage(nil), raw...)})
	}
	return out, nil
}

// vMatchField models encoding/json's member-name matching: exact match first, then
// case-insensitive (simple Unicode folding).
func vMatchField(key string, names []string) string {
	for _, n := range names {
		if n == key {
			return n
		}
	}
	for _, n := range names {
		if strings.EqualFold(n, key) {
			return n
		}
	}
	return ""
}
