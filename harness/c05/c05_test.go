package c05

import (
	"errors"
	"fmt"
	"strings"
	"testing"

	"github.com/csgura/fp"
	"pgregory.net/rapid"

	"verifharness/kit"
)

func TestMain(m *testing.M) {
	fp.VerifSetAtomicHook(kit.HookYield)
	fp.VerifSetSpawn(kit.HookSpawn)
	kit.Main(m)
}

// ---- executors -----------------------------------------------------------------

type inlineExec struct{}

func (inlineExec) ExecuteUnsafe(r fp.Runnable) { r.Run() }

// threadExec turns every task into a scheduler thread (a user-supplied executor).
type threadExec struct{}

func (threadExec) ExecuteUnsafe(r fp.Runnable) {
	if !kit.HookSpawn(r.Run) {
		r.Run()
	}
}

// ---- scenario ------------------------------------------------------------------

type cbRec struct {
	id            int
	kind          string // complete | success | failure | foreach
	exec          string // default | nil | inline | thread
	pre           bool
	calls         int
	vals          []string
	sawIncomplete bool
}

type completer struct {
	method string // Success | Failure | Complete
	ok     bool
	val    int
	err    error
	ret    bool
	called bool
}

func (c completer) result() string {
	if c.ok {
		return fmt.Sprintf("S%d", c.val)
	}
	return "F" + c.err.Error()
}

func tryStr(t fp.Try[int]) string {
	if t.IsSuccess() {
		return fmt.Sprintf("S%d", t.Get())
	}
	return "F" + t.Failed().Get().Error()
}

type scenario struct {
	nPre   int
	comps  []*completer
	regs   []*cbRec // registered by registrar threads
	pres   []*cbRec
	nObs   int
	quiet  bool
	desc   string
	obsLog [][]string
}

var kinds = []string{"complete", "success", "failure", "foreach"}
var execs = []string{"default", "nil", "inline", "thread"}

func drawScenario(rt *rapid.T, minPre, maxPre, minComp, maxComp, minReg, maxReg int, execChoices []string) *scenario {
	sc := &scenario{}
	sc.nPre = rapid.IntRange(minPre, maxPre).Draw(rt, "nPre")
	nComp := rapid.IntRange(minComp, maxComp).Draw(rt, "nComp")
	nReg := rapid.IntRange(minReg, maxReg).Draw(rt, "nReg")
	sc.nObs = rapid.IntRange(0, 1).Draw(rt, "nObs")
	sc.quiet = rapid.Bool().Draw(rt, "quietCallbacks")
	var sb strings.Builder
	for i := 0; i < sc.nPre; i++ {
		c := &cbRec{id: i, pre: true, kind: rapid.SampledFrom(kinds).Draw(rt, "preKind"), exec: rapid.SampledFrom(execChoices).Draw(rt, "preExec")}
		sc.pres = append(sc.pres, c)
		fmt.Fprintf(&sb, "pre(%s,%s) ", c.kind, c.exec)
	}
	for i := 0; i < nComp; i++ {
		c := &completer{method: rapid.SampledFrom([]string{"Success", "Failure", "Complete"}).Draw(rt, "method")}
		switch c.method {
		case "Success":
			c.ok = true
		case "Failure":
			c.ok = false
		default:
			c.ok = rapid.Bool().Draw(rt, "completeOk")
		}
		c.val = 100 + i
		c.err = kit.Errs[i]
		sc.comps = append(sc.comps, c)
		fmt.Fprintf(&sb, "comp(%s,%s) ", c.method, c.result())
	}
	for i := 0; i < nReg; i++ {
		c := &cbRec{id: 100 + i, kind: rapid.SampledFrom(kinds).Draw(rt, "regKind"), exec: rapid.SampledFrom(execChoices).Draw(rt, "regExec")}
		sc.regs = append(sc.regs, c)
		fmt.Fprintf(&sb, "reg(%s,%s) ", c.kind, c.exec)
	}
	fmt.Fprintf(&sb, "obs=%d quiet=%v", sc.nObs, sc.quiet)
	sc.desc = sb.String()
	return sc
}

func execOf(name string) []fp.Executor {
	switch name {
	case "nil":
		return []fp.Executor{nil}
	case "inline":
		return []fp.Executor{inlineExec{}}
	case "thread":
		return []fp.Executor{threadExec{}}
	}
	return nil
}

func register(p fp.Promise[int], c *cbRec, quiet bool) {
	f := p.Future()
	note := func(v string) {
		c.calls++
		c.vals = append(c.vals, v)
		check := func() {
			if !p.IsCompleted() {
				c.sawIncomplete = true
			}
		}
		if quiet {
			kit.Quiet(check)
		} else {
			check()
		}
	}
	ex := execOf(c.exec)
	switch c.kind {
	case "complete":
		f.OnComplete(func(t fp.Try[int]) { note(tryStr(t)) }, ex...)
	case "success":
		f.OnSuccess(func(v int) { note(fmt.Sprintf("S%d", v)) }, ex...)
	case "failure":
		f.OnFailure(func(e error) { note("F" + e.Error()) }, ex...)
	default:
		f.Foreach(func(v int) { note(fmt.Sprintf("S%d", v)) }, ex...)
	}
}

// run executes the scenario under the scheduler and checks the invariant over the history.
// fail(sigSuffix, msg) reports.
func (sc *scenario) run(pick func(n int, rs []*kit.Thread) int, fail func(sig, msg string)) (contended bool, steps int) {
	p := fp.NewPromise[int]()
	for _, c := range sc.pres {
		register(p, c, true)
	}
	s := kit.NewSched()
	s.MaxSteps = 20000
	for i, c := range sc.comps {
		c := c
		s.Go(fmt.Sprintf("comp%d", i), func() {
			switch c.method {
			case "Success":
				c.ret = p.Success(c.val)
			case "Failure":
				c.ret = p.Failure(c.err)
			default:
				if c.ok {
					c.ret = p.Complete(fp.Success(c.val))
				} else {
					c.ret = p.Complete(fp.Failure[int](c.err))
				}
			}
			c.called = true
		})
	}
	for i, c := range sc.regs {
		c := c
		s.Go(fmt.Sprintf("reg%d", i), func() { register(p, c, sc.quiet) })
	}
	sc.obsLog = make([][]string, sc.nObs)
	for i := 0; i < sc.nObs; i++ {
		i := i
		s.Go(fmt.Sprintf("obs%d", i), func() {
			for k := 0; k < 4; k++ {
				if p.IsCompleted() {
					sc.obsLog[i] = append(sc.obsLog[i], tryStr(p.Value()))
				} else {
					sc.obsLog[i] = append(sc.obsLog[i], "-")
				}
			}
		})
	}
	res := s.Run(pick)
	steps = res.Steps
	trace := strings.Join(s.Trace, " ")
	if res.Panic != nil {
		fail("panic", fmt.Sprintf("thread %s panicked: %v\n%s\ntrace: %s", res.PanicIn, res.Panic, res.PanicInfo, trace))
		return
	}
	if res.Overrun {
		fail("livelock", "threads did not finish within the step bound; trace: "+clip(trace))
		return
	}
	// contention: some thread had to re-read the cell (a CAS of its own failed)
	gets := map[string]int{}
	for _, e := range s.Trace {
		if strings.HasSuffix(e, ":Get") {
			gets[strings.TrimSuffix(e, ":Get")]++
		}
	}
	for _, n := range gets {
		if n > 1 {
			contended = true
		}
	}
	// exactly one winner
	var winners []*completer
	for _, c := range sc.comps {
		if !c.called {
			fail("completer-not-returned", "a completion call never returned; trace: "+clip(trace))
			return
		}
		if c.ret {
			winners = append(winners, c)
		}
	}
	if len(sc.comps) == 0 {
		if p.IsCompleted() {
			fail("spurious-completion", "promise completed without any completion call")
		}
		for _, c := range append(append([]*cbRec{}, sc.pres...), sc.regs...) {
			if c.calls != 0 {
				fail("callback-before-completion", fmt.Sprintf("callback %d ran %d times although the promise was never completed", c.id, c.calls))
			}
		}
		return
	}
	if len(winners) != 1 {
		fail("single-assignment", fmt.Sprintf("%d completion calls returned true (want exactly 1); trace: %s", len(winners), clip(trace)))
		return
	}
	w := winners[0]
	want := w.result()
	if !p.IsCompleted() {
		fail("is-completed", "IsCompleted is false after a completion call returned true")
		return
	}
	if got := tryStr(p.Value()); got != want {
		fail("value", fmt.Sprintf("Value = %s, winning call completed with %s", got, want))
		return
	}
	for _, c := range append(append([]*cbRec{}, sc.pres...), sc.regs...) {
		expect := 1
		switch c.kind {
		case "success", "foreach":
			if !w.ok {
				expect = 0
			}
		case "failure":
			if w.ok {
				expect = 0
			}
		}
		if c.calls != expect {
			fail("exactly-once", fmt.Sprintf("callback %d (%s, executor %s, pre-registered=%v) ran %d times, want %d; winner %s; trace: %s", c.id, c.kind, c.exec, c.pre, c.calls, expect, want, clip(trace)))
			return
		}
		for _, v := range c.vals {
			if v != want {
				fail("callback-value", fmt.Sprintf("callback %d saw %s, the promise was completed with %s", c.id, v, want))
				return
			}
		}
		if c.sawIncomplete {
			fail("callback-before-completion", fmt.Sprintf("callback %d ran while IsCompleted was still false; trace: %s", c.id, clip(trace)))
			return
		}
	}
	for _, log := range sc.obsLog {
		seen := false
		for _, v := range log {
			if v == "-" {
				if seen {
					fail("is-completed-monotone", fmt.Sprintf("observer saw completed and later not completed: %v", log))
					return
				}
				continue
			}
			seen = true
			if v != want {
				fail("observer-value", fmt.Sprintf("observer saw Value %s, winner %s", v, want))
				return
			}
		}
	}
	return
}

func clip(s string) string {
	if len(s) > 1500 {
		return s[:1500] + "…"
	}
	return s
}

const ruleRace = "scenario = (0-7 callbacks registered before the race, 0-3 completer threads using Success/Failure/Complete with distinct results, 1-5 registrar threads using OnComplete/OnSuccess/OnFailure/Foreach with default/nil/inline/thread executors, 0-1 observer) + a generated schedule at the granularity of atomic steps and spawned tasks; oracle: invariant over the history (single winner, Value, exactly-once delivery with filter, never before completion, monotone IsCompleted); non-trivial iff some thread had to retry because its compare-and-swap lost (contention happened); distinct by scenario+trace"

func raceCheck(t *testing.T, name string, pct bool, minPre, maxPre, minComp, maxComp, minReg, maxReg int) {
	kit.Check(t, name, ruleRace, kit.Opt{}, func(rt *rapid.T, rec *kit.Rec) {
		sc := drawScenario(rt, minPre, maxPre, minComp, maxComp, minReg, maxReg, execs)
		var pick func(n int, rs []*kit.Thread) int
		if pct {
			pick = kit.PCTPick(rt, rapid.IntRange(0, 3).Draw(rt, "d"), 40)
		} else {
			pick = kit.UniformPick(rt)
		}
		var failSig, failMsg string
		contended, steps := sc.run(pick, func(sig, msg string) {
			if failSig == "" {
				failSig, failMsg = sig, msg
			}
		})
		rec.Case(contended, sc.desc+fmt.Sprintf(" steps=%d", steps))
		if contended {
			rec.Label("contended")
		} else {
			rec.Label("uncontended")
		}
		if failSig != "" {
			rec.Failf(rt, "C05|"+failSig, "%s\nscenario: %s", failMsg, sc.desc)
		}
	})
}

func TestRace(t *testing.T) {
	raceCheck(t, "race/uniform", false, 0, 7, 0, 3, 1, 5)
	raceCheck(t, "race/pct", true, 0, 7, 0, 3, 1, 5)
	// focused on the shape in which the callback list has spare capacity (3, 5..7 pre-registered)
	raceCheck(t, "race/many-pre-registered", false, 3, 7, 1, 1, 2, 4)
	raceCheck(t, "race/completers-only", false, 0, 3, 2, 3, 1, 1)
}

// ---- zero values ----------------------------------------------------------------

func TestZero(t *testing.T) {
	kit.Check(t, "zero/promise", "zero-value fp.Promise[int]: a generated sequence of completion attempts, registrations and observations; must behave as never completed; non-trivial iff the sequence has >= 2 operations of different kinds", kit.Opt{Weight: 0.2}, func(rt *rapid.T, rec *kit.Rec) {
		var p fp.Promise[int]
		ops := rapid.SliceOfN(rapid.SampledFrom([]string{"Success", "Failure", "Complete", "IsCompleted", "OnComplete", "OnSuccess", "OnFailure", "Foreach", "FutureIsCompleted", "String"}), 1, 8).Draw(rt, "ops")
		kindsSeen := map[string]bool{}
		for _, o := range ops {
			kindsSeen[o] = true
		}
		rec.Case(len(kindsSeen) >= 2, strings.Join(ops, ","))
		calls := 0
		for _, o := range ops {
			o := o
			rec.Guard(rt, "C05|zero|"+o, func() {
				switch o {
				case "Success":
					if p.Success(1) {
						panic("Success on a zero Promise returned true")
					}
				case "Failure":
					if p.Failure(errors.New("x")) {
						panic("Failure on a zero Promise returned true")
					}
				case "Complete":
					if p.Complete(fp.Success(2)) {
						panic("Complete on a zero Promise returned true")
					}
				case "IsCompleted":
					if p.IsCompleted() {
						panic("zero Promise reports completed")
					}
				case "FutureIsCompleted":
					if p.Future().IsCompleted() {
						panic("zero Future reports completed")
					}
				case "OnComplete":
					p.Future().OnComplete(func(fp.Try[int]) { calls++ }, inlineExec{})
				case "OnSuccess":
					p.Future().OnSuccess(func(int) { calls++ }, inlineExec{})
				case "OnFailure":
					p.Future().OnFailure(func(error) { calls++ }, inlineExec{})
				case "Foreach":
					p.Future().Foreach(func(int) { calls++ }, inlineExec{})
				case "String":
					_ = p.Future().String()
				}
			})
		}
		if calls != 0 {
			rec.Failf(rt, "C05|zero|callback-ran", "a callback registered on a zero-value promise ran %d times", calls)
		}
	})
	kit.Check(t, "zero/future", "zero-value fp.Future[int] (not derived from a promise): same operations on the Future side", kit.Opt{Weight: 0.2}, func(rt *rapid.T, rec *kit.Rec) {
		var f fp.Future[int]
		ops := rapid.SliceOfN(rapid.SampledFrom([]string{"IsCompleted", "OnComplete", "OnSuccess", "OnFailure", "Foreach", "String"}), 1, 8).Draw(rt, "ops")
		kindsSeen := map[string]bool{}
		for _, o := range ops {
			kindsSeen[o] = true
		}
		rec.Case(len(kindsSeen) >= 2, strings.Join(ops, ","))
		calls := 0
		for _, o := range ops {
			o := o
			rec.Guard(rt, "C05|zero-future|"+o, func() {
				switch o {
				case "IsCompleted":
					if f.IsCompleted() {
						panic("zero Future reports completed")
					}
				case "OnComplete":
					f.OnComplete(func(fp.Try[int]) { calls++ }, inlineExec{})
				case "OnSuccess":
					f.OnSuccess(func(int) { calls++ }, inlineExec{})
				case "OnFailure":
					f.OnFailure(func(error) { calls++ }, inlineExec{})
				case "Foreach":
					f.Foreach(func(int) { calls++ }, inlineExec{})
				case "String":
					_ = f.String()
				}
			})
		}
		if calls != 0 {
			rec.Failf(rt, "C05|zero-future|callback-ran", "a callback registered on a zero-value future ran %d times", calls)
		}
	})
}

// ---- exhaustive enumeration of small configurations ---------------------------------

func dfsConfig(t *testing.T, name string, nPre, nComp, nReg int, maxRuns int) {
	kit.Plain(t, name, fmt.Sprintf("every schedule (depth-first enumeration of all decision vectors) of %d registrar threads and %d completer threads over a promise with %d pre-registered callbacks, inline executors; each schedule is non-trivial iff a compare-and-swap was lost", nReg, nComp, nPre), func(t *testing.T, rec *kit.Rec) {
		d := kit.NewDFS()
		exhausted := false
		for d.Next() {
			if d.Runs > maxRuns {
				break
			}
			sc := &scenario{nPre: nPre, quiet: true}
			for i := 0; i < nPre; i++ {
				sc.pres = append(sc.pres, &cbRec{id: i, pre: true, kind: "complete", exec: "inline"})
			}
			for i := 0; i < nComp; i++ {
				sc.comps = append(sc.comps, &completer{method: "Complete", ok: i%2 == 0, val: 100 + i, err: kit.Errs[i]})
			}
			for i := 0; i < nReg; i++ {
				sc.regs = append(sc.regs, &cbRec{id: 100 + i, kind: "complete", exec: "inline"})
			}
			var failSig, failMsg string
			contended, _ := sc.run(func(n int, rs []*kit.Thread) int { return d.Pick(n) }, func(sig, msg string) {
				if failSig == "" {
					failSig, failMsg = sig, msg
				}
			})
			rec.Case(contended, fmt.Sprint(d.Choices()))
			if failSig != "" {
				rec.PlainFail(t, "C05|"+failSig, "schedule %v: %s", d.Choices(), failMsg)
			}
		}
		if d.Runs <= maxRuns {
			exhausted = true
		}
		rec.Extra("exhaustive", exhausted)
		rec.Extra("schedules", d.Runs)
	})
}

func TestExhaustive(t *testing.T) {
	dfsConfig(t, "dfs/2reg-1comp-3pre", 3, 1, 2, kit.Pick(20000, 2000000))
	dfsConfig(t, "dfs/2reg-0comp-3pre", 3, 0, 2, kit.Pick(20000, 2000000))
	dfsConfig(t, "dfs/1reg-2comp-0pre", 0, 2, 1, kit.Pick(20000, 2000000))
	if kit.Thorough() {
		dfsConfig(t, "dfs/3reg-1comp-3pre", 3, 1, 3, 1000000)
		dfsConfig(t, "dfs/2reg-2comp-5pre", 5, 2, 2, 1000000)
	}
}
