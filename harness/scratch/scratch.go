// Package scratch runs the repository's gombok generator on generated scratch
// packages: temp module outside /repo and /verif, `replace` to the tree under
// test, gombok binary built once per process from that tree.
package scratch

import (
	"bytes"
	_ "embed"
	"fmt"
	"os"
	"os/exec"
	"path/filepath"
	"regexp"
	"strings"
	"sync"
	"syscall"
	"time"
)

//go:embed lawlib.go.txt
var LawLib string

//go:embed derivelib.go.txt
var DeriveLib string

// RepoPath is the tree under test.
func RepoPath() string {
	if p := os.Getenv("VERIF_REPO"); p != "" {
		abs, err := filepath.Abs(p)
		if err == nil {
			return abs
		}
		return p
	}
	return "/repo"
}

func goEnv(extra ...string) []string {
	env := os.Environ()
	env = append(env, "GOFLAGS=-mod=mod", "GOPROXY=off", "GOSUMDB=off", "GOTOOLCHAIN=local", "GONOSUMDB=*", "GONOSUMCHECK=1")
	env = append(env, extra...)
	return env
}

var (
	gombokOnce sync.Once
	gombokBin  string
	gombokErr  error
	baseDir    string
)

// BaseDir is a per-process temp directory (removed by Cleanup).
func BaseDir() string {
	gombokOnce.Do(buildGombok)
	return baseDir
}

func buildGombok() {
	d, err := os.MkdirTemp("", "verif-scratch-")
	if err != nil {
		gombokErr = err
		return
	}
	baseDir = d
	mod := filepath.Join(d, "toolmod")
	if err := writeModule(mod); err != nil {
		gombokErr = err
		return
	}
	if err := os.WriteFile(filepath.Join(mod, "tools.go"), []byte("//go:build tools\n\npackage toolmod\n\nimport _ \"github.com/csgura/fp/cmd/gombok\"\n"), 0o644); err != nil {
		gombokErr = err
		return
	}
	bin := filepath.Join(d, "gombok")
	args := []string{"build", "-o", bin}
	if os.Getenv("VERIF_GOMBOK_COVERDIR") != "" {
		// informational (tools/gombokcoverage.sh): which parts of the generator do the grammars reach?
		args = append(args, "-cover", "-coverpkg=github.com/csgura/fp/cmd/gombok,github.com/csgura/fp/metafp,github.com/csgura/fp/genfp")
	}
	cmd := exec.Command("go", append(args, "github.com/csgura/fp/cmd/gombok")...)
	cmd.Dir = mod
	cmd.Env = goEnv()
	out, err := cmd.CombinedOutput()
	if err != nil {
		gombokErr = fmt.Errorf("building gombok from %s failed: %v\n%s", RepoPath(), err, out)
		return
	}
	gombokBin = bin
}

// Gombok returns the path of the gombok binary built from the tree under test.
func Gombok() (string, error) {
	gombokOnce.Do(buildGombok)
	return gombokBin, gombokErr
}

// Cleanup removes everything this process created.
func Cleanup() {
	if baseDir != "" {
		_ = os.RemoveAll(baseDir)
	}
}

func writeModule(dir string) error {
	if err := os.MkdirAll(dir, 0o755); err != nil {
		return err
	}
	gomod := fmt.Sprintf("module scratch\n\ngo 1.23\n\nrequire github.com/csgura/fp v0.0.0\n\nreplace github.com/csgura/fp => %s\n", RepoPath())
	if err := os.WriteFile(filepath.Join(dir, "go.mod"), []byte(gomod), 0o644); err != nil {
		return err
	}
	sum, err := os.ReadFile(filepath.Join(RepoPath(), "go.sum"))
	if err != nil {
		return err
	}
	return os.WriteFile(filepath.Join(dir, "go.sum"), sum, 0o644)
}

// Module is one scratch module with packages below it.
type Module struct {
	Dir string
}

var modCounter int
var modMu sync.Mutex

// guardDisk keeps the shared Go build cache from filling the disk: every scratch package leaves a
// few MB of unique entries behind. Checked every few modules; wipes the cache when space runs low.
func guardDisk() {
	var st syscall.Statfs_t
	if err := syscall.Statfs(os.TempDir(), &st); err != nil {
		return
	}
	free := st.Bavail * uint64(st.Bsize)
	if free < 30<<30 {
		unlock := CacheLockExclusive()
		defer unlock()
		// somebody else may have cleaned while this process waited for the lock
		if err := syscall.Statfs(os.TempDir(), &st); err == nil && st.Bavail*uint64(st.Bsize) >= 30<<30 {
			return
		}
		cmd := exec.Command("go", "clean", "-cache")
		cmd.Env = goEnv()
		_ = cmd.Run()
	}
}

// The Go build cache is shared by every process of every check. Wiping it while another process runs
// gombok (go/packages reads export data out of it) makes that run fail with "internal error: package
// ... without types was imported": so every toolchain command holds a shared lock for its duration
// and the cleaner an exclusive one. A marker file keeps new readers out while a cleaner waits (flock
// has no writer preference); a marker older than ten minutes belongs to a dead cleaner and is ignored.
func cacheLockPath() string { return filepath.Join(os.TempDir(), "verif-gocache.lock") }

func cacheLock(how int) func() {
	f, err := os.OpenFile(cacheLockPath(), os.O_CREATE|os.O_RDWR, 0o666)
	if err != nil {
		return func() {}
	}
	if err := syscall.Flock(int(f.Fd()), how); err != nil {
		f.Close()
		return func() {}
	}
	return func() {
		_ = syscall.Flock(int(f.Fd()), syscall.LOCK_UN)
		f.Close()
	}
}

// CacheLockShared is held around every command that reads the Go build cache.
func CacheLockShared() func() {
	marker := cacheLockPath() + ".cleaning"
	for i := 0; i < 1200; i++ {
		st, err := os.Stat(marker)
		if err != nil || time.Since(st.ModTime()) > 10*time.Minute {
			break
		}
		time.Sleep(500 * time.Millisecond)
	}
	return cacheLock(syscall.LOCK_SH)
}

// CacheLockExclusive is held by the process that wipes the cache.
func CacheLockExclusive() func() {
	marker := cacheLockPath() + ".cleaning"
	_ = os.WriteFile(marker, []byte(fmt.Sprint(os.Getpid())), 0o666)
	unlock := cacheLock(syscall.LOCK_EX)
	return func() {
		_ = os.Remove(marker)
		unlock()
	}
}

// NewModule creates a fresh scratch module.
func NewModule() (*Module, error) {
	if _, err := Gombok(); err != nil {
		return nil, err
	}
	modMu.Lock()
	modCounter++
	n := modCounter
	modMu.Unlock()
	if n%8 == 1 {
		guardDisk()
	}
	dir := filepath.Join(baseDir, fmt.Sprintf("m%d", n))
	if err := writeModule(dir); err != nil {
		return nil, err
	}
	return &Module{Dir: dir}, nil
}

// Remove deletes the module directory.
func (m *Module) Remove() { _ = os.RemoveAll(m.Dir) }

// WriteFile writes a file relative to the module root.
func (m *Module) WriteFile(rel string, content string) error {
	p := filepath.Join(m.Dir, rel)
	if err := os.MkdirAll(filepath.Dir(p), 0o755); err != nil {
		return err
	}
	return os.WriteFile(p, []byte(content), 0o644)
}

// ReadFile reads a file relative to the module root ("" if missing).
func (m *Module) ReadFile(rel string) string {
	b, err := os.ReadFile(filepath.Join(m.Dir, rel))
	if err != nil {
		return ""
	}
	return string(b)
}

// Result of an external command.
type Result struct {
	Out      string
	ExitCode int
	TimedOut bool
}

func (m *Module) run(rel string, timeout time.Duration, env []string, name string, args ...string) Result {
	defer CacheLockShared()()
	cmd := exec.Command(name, args...)
	cmd.Dir = filepath.Join(m.Dir, rel)
	cmd.Env = goEnv(env...)
	var buf bytes.Buffer
	cmd.Stdout = &buf
	cmd.Stderr = &buf
	if err := cmd.Start(); err != nil {
		return Result{Out: err.Error(), ExitCode: -1}
	}
	done := make(chan error, 1)
	go func() { done <- cmd.Wait() }()
	select {
	case err := <-done:
		code := 0
		if err != nil {
			code = 1
			if ee, ok := err.(*exec.ExitError); ok {
				code = ee.ExitCode()
			}
		}
		out := buf.String()
		if code != 0 && strings.TrimSpace(out) == "" {
			// go, the compiler and gombok all say why they fail; a silent non-zero exit is a process killed
			// from outside (memory pressure). ToolchainTrouble recognises the marker.
			out = fmt.Sprintf("%s (exit code %d)\n", DiedSilently, code)
		}
		return Result{Out: out, ExitCode: code}
	case <-time.After(timeout):
		_ = cmd.Process.Kill()
		<-done
		return Result{Out: buf.String(), ExitCode: -1, TimedOut: true}
	}
}

// RunGombok runs gombok in package directory rel (package name pkg).
func (m *Module) RunGombok(rel, pkg string, extraEnv ...string) Result {
	bin, _ := Gombok()
	env := append([]string{"GOPACKAGE=" + pkg, "GOFILE=types.go", "GOLINE=1"}, extraEnv...)
	if d := os.Getenv("VERIF_GOMBOK_COVERDIR"); d != "" {
		env = append(env, "GOCOVERDIR="+d)
	}
	var r Result
	for attempt := 0; attempt < 3; attempt++ {
		r = m.run(rel, 120*time.Second, env, bin)
		if !ToolchainTrouble(r.Out) {
			break
		}
		time.Sleep(time.Duration(attempt+1) * 2 * time.Second)
	}
	return r
}

// DiedSilently marks the output of a child process that ended non-zero without writing anything.
const DiedSilently = "verif: child process ended without any output"

// ToolchainTrouble recognises output that reports a failure of the environment the tool ran in, not a
// decision of the tool: go/packages could not read export data because the shared Go build cache was
// being trimmed or cleaned by another process at that moment ("internal error: package ... without
// types was imported from ..."), or the machine ran out of disk, memory or processes. Such a run says
// nothing about the property; callers retry and otherwise report a harness problem (inconclusive).
func ToolchainTrouble(out string) bool {
	if strings.Contains(out, DiedSilently) || strings.Contains(out, "signal: killed") {
		return true
	}
	if strings.Contains(out, "internal error: package ") && strings.Contains(out, " without types was imported from ") {
		return true
	}
	for _, m := range []string{"no space left on device", "cannot allocate memory", "resource temporarily unavailable", "too many open files"} {
		if strings.Contains(out, m) {
			return true
		}
	}
	return false
}

// GoTestLaws runs the law test of package ./pa. A run that ends non-zero without any LAWFAIL line and
// without a build failure is repeated (the law test is deterministic): on a loaded machine `go test` is
// occasionally killed from outside (memory pressure, a cleaned build cache) and then says nothing at all.
// crashed reports that the last run shows a crash of the test binary itself (panic, fatal error, failed
// test); died that it ended non-zero without showing one - which decides nothing.
func (m *Module) GoTestLaws(timeout time.Duration) (r Result, crashed, died bool) {
	for attempt := 0; attempt < 3; attempt++ {
		r = m.Go(timeout, "test", "-count=1", "-vet=off", "-v", "./pa")
		crashed, died = false, false
		if r.TimedOut || r.ExitCode == 0 || strings.Contains(r.Out, "LAWFAIL\t") ||
			strings.Contains(r.Out, "[build failed]") || strings.Contains(r.Out, "[setup failed]") {
			return
		}
		shows := false
		for _, m := range []string{"panic:", "fatal error:", "--- FAIL", "goroutine "} {
			if strings.Contains(r.Out, m) {
				shows = true
			}
		}
		if shows && !ToolchainTrouble(r.Out) && !strings.Contains(r.Out, "signal: killed") {
			if attempt > 0 {
				crashed = true
				return
			}
			// seen once: make sure it is the code, not the machine
			continue
		}
		died = true
		time.Sleep(time.Duration(attempt+1) * 3 * time.Second)
	}
	return
}

// Go runs a go command at the module root.
func (m *Module) Go(timeout time.Duration, args ...string) Result {
	return m.run("", timeout, nil, "go", args...)
}

var rePath = regexp.MustCompile(`(?m)^(\S*/)?([A-Za-z0-9_]+\.go):\d+:\d+: `)

// FirstError extracts the first compiler error line, with positions removed.
func FirstError(out string) string {
	for _, l := range strings.Split(out, "\n") {
		if strings.Contains(l, ".go:") && !strings.HasPrefix(l, "#") {
			l = rePath.ReplaceAllString(l, "$2: ")
			return strings.TrimSpace(l)
		}
	}
	ls := strings.Split(strings.TrimSpace(out), "\n")
	if len(ls) > 0 {
		return ls[len(ls)-1]
	}
	return ""
}

var reIdent = regexp.MustCompile(`[A-Z][A-Za-z0-9_]*\d+|S\d+[A-Za-z]*`)

// ErrorClass turns a compiler message into a stable class (struct names removed).
func ErrorClass(msg string) string {
	msg = reIdent.ReplaceAllString(msg, "T")
	if len(msg) > 90 {
		msg = msg[:90]
	}
	return msg
}
