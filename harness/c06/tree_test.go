package c06

import (
	"errors"
	"fmt"
	"strings"
	"time"

	"github.com/csgura/fp"
	"github.com/csgura/fp/as"
	"github.com/csgura/fp/future"
	"github.com/csgura/fp/hlist"
	"github.com/csgura/fp/iterator"
	"github.com/csgura/fp/list"
	"github.com/csgura/fp/seq"
	"pgregory.net/rapid"

	"verifharness/kit"
)

// ---- reference domain: Try ∪ {⊥} ------------------------------------------------

// R is the reference result: Bot = still pending.
type R struct {
	Bot   bool
	Ok    bool
	V     int
	Err   error
	Panic bool // failure produced by a panic inside Apply/Apply2/Func*: identity of the error is fresh
}

var bot = R{Bot: true}

func okR(v int) R      { return R{Ok: true, V: v} }
func failR(e error) R  { return R{Err: e} }
func panicR() R        { return R{Panic: true, Err: errPanicMarker} }
func (r R) done() bool { return !r.Bot }

var errPanicMarker = errors.New("<failure from a captured panic>")

func (r R) String() string {
	switch {
	case r.Bot:
		return "⊥"
	case r.Ok:
		return fmt.Sprintf("S(%d)", r.V)
	case r.Panic:
		return "F(panic)"
	default:
		return "F(" + r.Err.Error() + ")"
	}
}

// bind: left-to-right short-circuit, ⊥ is strict
func bind(a R, k func(int) R) R {
	if a.Bot {
		return bot
	}
	if !a.Ok {
		return a
	}
	return k(a.V)
}

func comb(a, b int) int { return (31*a + b) % 1000003 }

func errIdx(e error) int {
	for i, x := range kit.Errs {
		if errors.Is(e, x) {
			return i
		}
	}
	if errors.Is(e, fp.ErrFutureNotFailed) {
		return 77
	}
	if errors.Is(e, fp.ErrOptionEmpty) {
		return 78
	}
	return 99
}

// ---- environment -----------------------------------------------------------------

type inlineExec struct{}

func (inlineExec) ExecuteUnsafe(r fp.Runnable) { r.Run() }

type threadExec struct{}

func (threadExec) ExecuteUnsafe(r fp.Runnable) {
	if !kit.HookSpawn(r.Run) {
		r.Run()
	}
}

func execOf(k int) []fp.Executor {
	switch k {
	case 1:
		return []fp.Executor{threadExec{}}
	case 2:
		return []fp.Executor{inlineExec{}}
	case 3:
		return []fp.Executor{nil}
	}
	return nil
}

var execNames = []string{"", "@thread", "@inline", "@nil"}

type env struct {
	srcs []fp.Promise[int]
	// status of every source as the harness knows it (what has been handed to Complete)
	st []R
}

// node is one vertex of a future expression: how to build it with the library and
// what it means in the reference domain.
type node struct {
	desc  string
	build func(e *env) fp.Future[int]
	ref   func(st []R) R
	size  int
	srcs  map[int]bool
}

func mergeSrcs(ns ...*node) map[int]bool {
	m := map[int]bool{}
	for _, n := range ns {
		for k := range n.srcs {
			m[k] = true
		}
	}
	return m
}

// ---- generator ----------------------------------------------------------------------

type gctx struct {
	t     *rapid.T
	nSrc  int
	ops   map[string]bool // optional whitelist
	noExe bool
}

func (g *gctx) exec() int {
	if g.noExe {
		return 0
	}
	return rapid.IntRange(0, 3).Draw(g.t, "exec")
}

func (g *gctx) intFn() kit.IntFn { return kit.IntFnGen().Draw(g.t, "fn") }

func (g *gctx) leaf() *node {
	t := g.t
	switch rapid.SampledFrom([]string{"src", "src", "src", "src", "src", "src", "src", "src", "src", "src", "src", "ok", "fail", "apply", "apply-panic", "apply2", "apply2-err", "apply2-panic", "func1", "fromTry", "fromOption"}).Draw(t, "leaf") {
	case "src":
		i := rapid.IntRange(0, g.nSrc-1).Draw(t, "src")
		return &node{desc: fmt.Sprintf("src%d", i), size: 1, srcs: map[int]bool{i: true},
			build: func(e *env) fp.Future[int] { return e.srcs[i].Future() },
			ref:   func(st []R) R { return st[i] }}
	case "ok":
		v := kit.TinyInt().Draw(t, "v")
		return &node{desc: fmt.Sprintf("Successful(%d)", v), size: 1, srcs: map[int]bool{},
			build: func(e *env) fp.Future[int] { return future.Successful(v) },
			ref:   func(st []R) R { return okR(v) }}
	case "fail":
		er := rapid.SampledFrom(kit.Errs[5:8]).Draw(t, "e")
		return &node{desc: "Failed(" + er.Error() + ")", size: 1, srcs: map[int]bool{},
			build: func(e *env) fp.Future[int] { return future.Failed[int](er) },
			ref:   func(st []R) R { return failR(er) }}
	case "apply":
		v := kit.TinyInt().Draw(t, "v")
		x := g.exec()
		return &node{desc: fmt.Sprintf("Apply%s(%d)", execNames[x], v), size: 1, srcs: map[int]bool{},
			build: func(e *env) fp.Future[int] { return future.Apply(func() int { return v }, execOf(x)...) },
			ref:   func(st []R) R { return okR(v) }}
	case "apply-panic":
		x := g.exec()
		return &node{desc: fmt.Sprintf("Apply%s(panic)", execNames[x]), size: 1, srcs: map[int]bool{},
			build: func(e *env) fp.Future[int] {
				return future.Apply(func() int { panic("boom") }, execOf(x)...)
			},
			ref: func(st []R) R { return panicR() }}
	case "apply2":
		v := kit.TinyInt().Draw(t, "v")
		x := g.exec()
		return &node{desc: fmt.Sprintf("Apply2%s(%d,nil)", execNames[x], v), size: 1, srcs: map[int]bool{},
			build: func(e *env) fp.Future[int] {
				return future.Apply2(func() (int, error) { return v, nil }, execOf(x)...)
			},
			ref: func(st []R) R { return okR(v) }}
	case "apply2-err":
		er := rapid.SampledFrom(kit.Errs[5:8]).Draw(t, "e")
		x := g.exec()
		return &node{desc: fmt.Sprintf("Apply2%s(_,%s)", execNames[x], er), size: 1, srcs: map[int]bool{},
			build: func(e *env) fp.Future[int] {
				return future.Apply2(func() (int, error) { return 0, er }, execOf(x)...)
			},
			ref: func(st []R) R { return failR(er) }}
	case "apply2-panic":
		return &node{desc: "Apply2(panic)", size: 1, srcs: map[int]bool{},
			build: func(e *env) fp.Future[int] {
				return future.Apply2(func() (int, error) { var p *int; return *p, nil })
			},
			ref: func(st []R) R { return panicR() }}
	case "func1":
		f := g.intFn()
		a := kit.TinyInt().Draw(t, "arg")
		return &node{desc: fmt.Sprintf("Func1(%v)(%d)", f, a), size: 1, srcs: map[int]bool{},
			build: func(e *env) fp.Future[int] {
				return future.Func1(func(x int) (int, error) { return f.Call(x), nil })(a)
			},
			ref: func(st []R) R { return okR(f.Call(a)) }}
	case "fromTry":
		v := kit.TinyInt().Draw(t, "v")
		return &node{desc: fmt.Sprintf("FromTry(S%d)", v), size: 1, srcs: map[int]bool{},
			build: func(e *env) fp.Future[int] { return future.FromTry(fp.Success(v)) },
			ref:   func(st []R) R { return okR(v) }}
	default:
		return &node{desc: "FromOption(None)", size: 1, srcs: map[int]bool{},
			build: func(e *env) fp.Future[int] { return future.FromOption(fp.None[int]()) },
			ref:   func(st []R) R { return failR(fp.ErrOptionEmpty) }}
	}
}

var unaryOps = []string{"Map", "m.Map", "FlatMap", "m.FlatMap", "Flatten", "Transform", "TransformWith", "Recover", "RecoverCase", "RecoverWith", "RecoverCaseWith", "Or", "OrFuture", "Failed", "Lift", "LiftM", "Method1", "FlatMethod1", "Method2", "FlatMethod2", "Method3", "Compose", "Compose3", "Replace", "FlapMap", "Chain1", "Applicative1",
	// second batch (functions the coverage measurement showed as never called)
	"Compose2", "ComposeOption", "ComposeTry", "ComposePure", "MapSeqLift", "MapSliceLift", "Flap", "Flap2", "FlatFlapMap", "Func0", "Await",
	"m.OnSuccess", "m.OnFailure", "m.Foreach", "m.String"}
var binaryOps = []string{"Map2", "Zip", "Ap", "ApFunc", "LiftA2", "LiftM2", "Chain2", "Applicative2", "With"}
var naryOps = []string{"Zip3", "LiftA3", "LiftA4", "LiftM3", "Sequence", "SequenceIterator", "Traverse", "TraverseSeq", "TraverseSlice", "FoldFuture.iterator", "FoldFuture.seq", "FoldFuture.list", "Chain3", "Applicative3", "FlatMapTraverseSeq",
	"TraverseFunc", "TraverseSeqFunc", "TraverseSliceFunc", "FlatMapTraverseSlice"}

func (g *gctx) allowed(ops []string) []string {
	if g.ops == nil {
		return ops
	}
	var r []string
	for _, o := range ops {
		if g.ops[o] {
			r = append(r, o)
		}
	}
	return r
}

// gen draws an expression of at most `budget` nodes.
func (g *gctx) gen(budget int) *node {
	t := g.t
	if budget <= 1 {
		return g.leaf()
	}
	var cands []string
	cands = append(cands, g.allowed(unaryOps)...)
	if budget >= 3 {
		cands = append(cands, g.allowed(binaryOps)...)
	}
	if budget >= 4 {
		cands = append(cands, g.allowed(naryOps)...)
	}
	if len(cands) == 0 || rapid.IntRange(0, 9).Draw(t, "leaf?") == 0 {
		return g.leaf()
	}
	op := rapid.SampledFrom(cands).Draw(t, "op")
	return g.mk(op, budget-1)
}

// continuation: value -> one of the kid expressions
func pickKid(kids []*node, v int) *node {
	k := len(kids)
	return kids[((v%k)+k)%k]
}

func descs(ns []*node) string {
	s := make([]string, len(ns))
	for i, n := range ns {
		s[i] = n.desc
	}
	return strings.Join(s, ",")
}

func (g *gctx) kids(n int, budget int) []*node {
	r := make([]*node, n)
	for i := range r {
		b := budget / n
		if b < 1 {
			b = 1
		}
		r[i] = g.gen(b)
	}
	return r
}

func sizeOf(ns ...*node) int {
	s := 1
	for _, n := range ns {
		s += n.size
	}
	return s
}

func (g *gctx) mk(op string, budget int) *node {
	t := g.t
	x := g.exec()
	xs := execNames[x]
	switch op {
	case "Map", "m.Map", "Lift", "Replace":
		a := g.gen(budget)
		f := g.intFn()
		if op == "Replace" {
			c := kit.TinyInt().Draw(t, "c")
			return &node{desc: fmt.Sprintf("Replace(%s,%d)", a.desc, c), size: sizeOf(a), srcs: a.srcs,
				build: func(e *env) fp.Future[int] { return future.Replace(a.build(e), c) },
				ref:   func(st []R) R { return bind(a.ref(st), func(int) R { return okR(c) }) }}
		}
		return &node{desc: fmt.Sprintf("%s%s(%s,%v)", op, xs, a.desc, f), size: sizeOf(a), srcs: a.srcs,
			build: func(e *env) fp.Future[int] {
				switch op {
				case "Map":
					return future.Map(a.build(e), f.Call, execOf(x)...)
				case "m.Map":
					return a.build(e).Map(f.Call, execOf(x)...)
				default:
					return future.Lift(f.Call, execOf(x)...)(a.build(e))
				}
			},
			ref: func(st []R) R { return bind(a.ref(st), func(v int) R { return okR(f.Call(v)) }) }}
	case "FlatMap", "m.FlatMap", "Flatten", "LiftM", "Compose", "Compose2", "Compose3":
		a := g.gen(budget / 2)
		ks := g.kids(rapid.IntRange(1, 2).Draw(t, "nk"), budget/2)
		f := g.intFn()
		ref := func(st []R) R { return bind(a.ref(st), func(v int) R { return pickKid(ks, v).ref(st) }) }
		if op == "Compose3" {
			ref = func(st []R) R {
				return bind(a.ref(st), func(v int) R { return bind(okR(f.Call(v)), func(w int) R { return pickKid(ks, w).ref(st) }) })
			}
		}
		return &node{desc: fmt.Sprintf("%s%s(%s, v=>[%s])", op, xs, a.desc, descs(ks)), size: sizeOf(append([]*node{a}, ks...)...), srcs: mergeSrcs(append([]*node{a}, ks...)...),
			build: func(e *env) fp.Future[int] {
				k := func(v int) fp.Future[int] { return pickKid(ks, v).build(e) }
				switch op {
				case "FlatMap":
					return future.FlatMap(a.build(e), k, execOf(x)...)
				case "m.FlatMap":
					return a.build(e).FlatMap(k, execOf(x)...)
				case "Flatten":
					return future.Flatten(future.Map(a.build(e), k, execOf(x)...))
				case "LiftM":
					return future.LiftM(k, execOf(x)...)(a.build(e))
				case "Compose":
					return future.Compose(func(fp.Unit) fp.Future[int] { return a.build(e) }, k, execOf(x)...)(fp.Unit{})
				case "Compose2":
					return future.Compose2(func(fp.Unit) fp.Future[int] { return a.build(e) }, k, execOf(x)...)(fp.Unit{})
				default:
					return future.Compose3(func(fp.Unit) fp.Future[int] { return a.build(e) }, func(v int) fp.Future[int] { return future.Successful(f.Call(v)) }, k, execOf(x)...)(fp.Unit{})
				}
			},
			ref: ref}
	case "Transform":
		a := g.gen(budget)
		f := g.intFn()
		mode := rapid.IntRange(0, 2).Draw(t, "mode")
		er := rapid.SampledFrom(kit.Errs[5:8]).Draw(t, "e")
		tr := func(r R) R {
			// success: f, or failure when v%3==0 (mode 1); failure: recovered to its index (mode 2) or replaced
			if r.Ok {
				if mode == 1 && r.V%3 == 0 {
					return failR(er)
				}
				return okR(f.Call(r.V))
			}
			if mode == 2 {
				return okR(100 + errIdxR(r))
			}
			return failR(er)
		}
		return &node{desc: fmt.Sprintf("Transform%s(%s,mode%d,%v)", xs, a.desc, mode, f), size: sizeOf(a), srcs: a.srcs,
			build: func(e *env) fp.Future[int] {
				return future.Transform(a.build(e), func(tv fp.Try[int]) fp.Try[int] {
					r := tr(fromTry(tv))
					if r.Ok {
						return fp.Success(r.V)
					}
					return fp.Failure[int](r.Err)
				}, execOf(x)...)
			},
			ref: func(st []R) R {
				r := a.ref(st)
				if r.Bot {
					return bot
				}
				return tr(r)
			}}
	case "TransformWith":
		a := g.gen(budget / 2)
		ks := g.kids(2, budget/2)
		return &node{desc: fmt.Sprintf("TransformWith%s(%s, ok=>%s | fail=>%s)", xs, a.desc, ks[0].desc, ks[1].desc), size: sizeOf(a, ks[0], ks[1]), srcs: mergeSrcs(a, ks[0], ks[1]),
			build: func(e *env) fp.Future[int] {
				return future.TransformWith(a.build(e), func(tv fp.Try[int]) fp.Future[int] {
					if tv.IsSuccess() {
						return ks[0].build(e)
					}
					return ks[1].build(e)
				}, execOf(x)...)
			},
			ref: func(st []R) R {
				r := a.ref(st)
				if r.Bot {
					return bot
				}
				if r.Ok {
					return ks[0].ref(st)
				}
				return ks[1].ref(st)
			}}
	case "Recover", "RecoverCase":
		a := g.gen(budget)
		j := rapid.IntRange(0, 9).Draw(t, "caseErr")
		return &node{desc: fmt.Sprintf("%s%s(%s,case=%d)", op, xs, a.desc, j), size: sizeOf(a), srcs: a.srcs,
			build: func(e *env) fp.Future[int] {
				if op == "Recover" {
					return a.build(e).Recover(func(err error) int { return 200 + errIdx(err) }, execOf(x)...)
				}
				return a.build(e).RecoverCase(func(err error) bool { return errIdx(err) == j }, func(err error) int { return 300 + errIdx(err) }, execOf(x)...)
			},
			ref: func(st []R) R {
				r := a.ref(st)
				if r.Bot || r.Ok {
					return r
				}
				if op == "Recover" {
					return okR(200 + errIdxR(r))
				}
				if errIdxR(r) == j {
					return okR(300 + errIdxR(r))
				}
				return r
			}}
	case "RecoverWith", "RecoverCaseWith", "Or", "OrFuture":
		a := g.gen(budget / 2)
		b := g.gen(budget / 2)
		j := rapid.IntRange(0, 9).Draw(t, "caseErr")
		return &node{desc: fmt.Sprintf("%s%s(%s, %s, case=%d)", op, xs, a.desc, b.desc, j), size: sizeOf(a, b), srcs: mergeSrcs(a, b),
			build: func(e *env) fp.Future[int] {
				switch op {
				case "RecoverWith":
					return a.build(e).RecoverWith(func(error) fp.Future[int] { return b.build(e) }, execOf(x)...)
				case "RecoverCaseWith":
					return a.build(e).RecoverCaseWith(func(err error) bool { return errIdx(err) == j }, func(error) fp.Future[int] { return b.build(e) }, execOf(x)...)
				case "Or":
					return a.build(e).Or(func() fp.Future[int] { return b.build(e) })
				default:
					return a.build(e).OrFuture(b.build(e))
				}
			},
			ref: func(st []R) R {
				r := a.ref(st)
				if r.Bot || r.Ok {
					return r
				}
				if op == "RecoverCaseWith" && errIdxR(r) != j {
					return r
				}
				return b.ref(st)
			}}
	case "Failed":
		a := g.gen(budget)
		return &node{desc: fmt.Sprintf("Map(Failed(%s),errIdx)", a.desc), size: sizeOf(a), srcs: a.srcs,
			build: func(e *env) fp.Future[int] { return future.Map(a.build(e).Failed(), errIdx) },
			ref: func(st []R) R {
				r := a.ref(st)
				if r.Bot {
					return bot
				}
				if r.Ok {
					return failR(fp.ErrFutureNotFailed)
				}
				return okR(errIdxR(r))
			}}
	case "Method1", "Method2", "Method3", "FlapMap", "Flap", "Flap2":
		a := g.gen(budget)
		b, c := kit.TinyInt().Draw(t, "b"), kit.TinyInt().Draw(t, "c")
		return &node{desc: fmt.Sprintf("%s%s(%s)(%d,%d)", op, xs, a.desc, b, c), size: sizeOf(a), srcs: a.srcs,
			build: func(e *env) fp.Future[int] {
				switch op {
				case "Method1":
					return future.Method1(a.build(e), comb, execOf(x)...)(b)
				case "FlapMap":
					return future.FlapMap(comb, a.build(e), execOf(x)...)(b)
				case "Flap":
					// Flap(tf)(b) = Ap(tf, Successful(b))
					tf := future.Map(a.build(e), func(p int) fp.Func1[int, int] { return func(q int) int { return comb(p, q) } })
					return future.Flap(tf, execOf(x)...)(b)
				case "Flap2":
					// Flap2(tf)(b)(c) = Flap(Ap(tf, Successful(b)))(c)
					tf := future.Map(a.build(e), func(p int) fp.Func1[int, fp.Func1[int, int]] {
						return func(q int) fp.Func1[int, int] { return func(r int) int { return comb(comb(p, q), r) } }
					})
					return future.Flap2(tf, execOf(x)...)(b)(c)
				case "Method2":
					return future.Method2(a.build(e), func(p, q, r int) int { return comb(comb(p, q), r) }, execOf(x)...)(b, c)
				default:
					return future.Method3(a.build(e), func(p, q, r int) int { return comb(comb(p, q), r) }, execOf(x)...)(b, c)
				}
			},
			ref: func(st []R) R {
				return bind(a.ref(st), func(v int) R {
					if op == "Method1" || op == "FlapMap" || op == "Flap" {
						return okR(comb(v, b))
					}
					return okR(comb(comb(v, b), c))
				})
			}}
	case "FlatMethod1", "FlatMethod2", "FlatFlapMap":
		a := g.gen(budget / 2)
		ks := g.kids(rapid.IntRange(1, 2).Draw(t, "nk"), budget/2)
		b := kit.TinyInt().Draw(t, "b")
		return &node{desc: fmt.Sprintf("%s%s(%s, (a,%d)=>[%s])", op, xs, a.desc, b, descs(ks)), size: sizeOf(append([]*node{a}, ks...)...), srcs: mergeSrcs(append([]*node{a}, ks...)...),
			build: func(e *env) fp.Future[int] {
				if op == "FlatMethod1" {
					return future.FlatMethod1(a.build(e), func(p, q int) fp.Future[int] { return pickKid(ks, p+q).build(e) }, execOf(x)...)(b)
				}
				if op == "FlatFlapMap" {
					// FlatFlapMap(fab, ta)(b) = Flatten(Map(ta, a => fab(a,b)))
					return future.FlatFlapMap(func(p, q int) fp.Future[int] { return pickKid(ks, p+q).build(e) }, a.build(e), execOf(x)...)(b)
				}
				return future.FlatMethod2(a.build(e), func(p, q, r int) fp.Future[int] { return pickKid(ks, p+q+r).build(e) })(b, 1)
			},
			ref: func(st []R) R {
				return bind(a.ref(st), func(v int) R {
					if op == "FlatMethod1" || op == "FlatFlapMap" {
						return pickKid(ks, v+b).ref(st)
					}
					return pickKid(ks, v+b+1).ref(st)
				})
			}}
	case "ComposeOption", "ComposeTry":
		// ComposeOption(f1,f2)(v) = FlatMap(FromOption(f1(v)), f2); ComposeTry likewise with FromTry.
		// The composed arrow is lifted over the operand a by FlatMap (as for "With").
		a := g.gen(budget / 2)
		ks := g.kids(rapid.IntRange(1, 2).Draw(t, "nk"), budget/2)
		f := g.intFn()
		mode := rapid.IntRange(0, 1).Draw(t, "mode") // 1: f1 is empty / fails on multiples of 3
		er := rapid.SampledFrom(kit.Errs[5:8]).Draw(t, "e")
		empty := func(v int) bool { return mode == 1 && v%3 == 0 }
		all := append([]*node{a}, ks...)
		return &node{desc: fmt.Sprintf("%s%s(%s, mode%d/%s, %v, w=>[%s])", op, xs, a.desc, mode, er, f, descs(ks)), size: sizeOf(all...), srcs: mergeSrcs(all...),
			build: func(e *env) fp.Future[int] {
				k := func(w int) fp.Future[int] { return pickKid(ks, w).build(e) }
				if op == "ComposeOption" {
					return future.FlatMap(a.build(e), future.ComposeOption(func(v int) fp.Option[int] {
						if empty(v) {
							return fp.None[int]()
						}
						return fp.Some(f.Call(v))
					}, k, execOf(x)...))
				}
				return future.FlatMap(a.build(e), future.ComposeTry(func(v int) fp.Try[int] {
					if empty(v) {
						return fp.Failure[int](er)
					}
					return fp.Success(f.Call(v))
				}, k, execOf(x)...))
			},
			ref: func(st []R) R {
				return bind(a.ref(st), func(v int) R {
					if empty(v) {
						if op == "ComposeOption" {
							return failR(fp.ErrOptionEmpty)
						}
						return failR(er)
					}
					return pickKid(ks, f.Call(v)).ref(st)
				})
			}}
	case "ComposePure":
		// ComposePure(f)(v) = Successful(f(v)), lifted over a by FlatMap
		a := g.gen(budget)
		f := g.intFn()
		return &node{desc: fmt.Sprintf("ComposePure%s(%s,%v)", xs, a.desc, f), size: sizeOf(a), srcs: a.srcs,
			build: func(e *env) fp.Future[int] {
				return future.FlatMap(a.build(e), future.ComposePure(f.Call, execOf(x)...))
			},
			ref: func(st []R) R { return bind(a.ref(st), func(v int) R { return okR(f.Call(v)) }) }}
	case "MapSeqLift", "MapSliceLift", "FlatMapTraverseSlice":
		// the future of a slice is derived from an int operand: a => items ++ [a]
		traverse := op == "FlatMapTraverseSlice"
		ab := budget
		if traverse {
			ab = budget / 2
		}
		a := g.gen(ab)
		items := rapid.SliceOfN(rapid.IntRange(0, 5), 0, 3).Draw(t, "items")
		f := g.intFn()
		ks := []*node{}
		if traverse {
			ks = g.kids(rapid.IntRange(1, 3).Draw(t, "nk"), budget/2)
		}
		all := append([]*node{a}, ks...)
		with := func(v int) []int { return append(append([]int{}, items...), v) }
		d := fmt.Sprintf("%s%s(%s=>%v++[a], %v)", op, xs, a.desc, items, f)
		if traverse {
			d = fmt.Sprintf("%s%s(%s=>%v++[a], i=>[%s])", op, xs, a.desc, items, descs(ks))
		}
		return &node{desc: d, size: sizeOf(all...), srcs: mergeSrcs(all...),
			build: func(e *env) fp.Future[int] {
				switch op {
				case "MapSeqLift":
					ta := future.Map(a.build(e), func(v int) fp.Seq[int] { return with(v) })
					return future.Map(future.MapSeqLift(ta, f.Call, execOf(x)...), func(s fp.Seq[int]) int { return foldSlice(s) })
				case "MapSliceLift":
					ta := future.Map(a.build(e), with)
					return future.Map(future.MapSliceLift(ta, f.Call, execOf(x)...), foldSlice)
				default:
					ta := future.Map(a.build(e), with)
					fn := func(i int) fp.Future[int] { return pickKid(ks, i).build(e) }
					return future.Map(future.FlatMapTraverseSlice(ta, fn, execOf(x)...), foldSlice)
				}
			},
			ref: func(st []R) R {
				return bind(a.ref(st), func(v int) R {
					acc := okR(7)
					for _, i := range with(v) {
						i := i
						acc = bind(acc, func(p int) R {
							if !traverse {
								return okR(comb(p, f.Call(i)))
							}
							return bind(pickKid(ks, i).ref(st), func(q int) R { return okR(comb(p, q)) })
						})
					}
					return acc
				})
			}}
	case "Func0":
		// Func0(body)(Unit) = Apply2(body): always completes, with a Failure if body returns an error or panics.
		a := g.gen(budget)
		f := g.intFn()
		mode := rapid.IntRange(0, 2).Draw(t, "mode") // on multiples of 3 -- 1: body returns an error, 2: body panics
		er := rapid.SampledFrom(kit.Errs[5:8]).Draw(t, "e")
		return &node{desc: fmt.Sprintf("Func0%s(%s, mode%d/%s, %v)", xs, a.desc, mode, er, f), size: sizeOf(a), srcs: a.srcs,
			build: func(e *env) fp.Future[int] {
				return future.FlatMap(a.build(e), func(v int) fp.Future[int] {
					return future.Func0(func() (int, error) {
						if v%3 == 0 && mode == 1 {
							return 0, er
						}
						if v%3 == 0 && mode == 2 {
							panic("boom")
						}
						return f.Call(v), nil
					}, execOf(x)...)(fp.Unit{})
				})
			},
			ref: func(st []R) R {
				return bind(a.ref(st), func(v int) R {
					if v%3 == 0 && mode == 1 {
						return failR(er)
					}
					if v%3 == 0 && mode == 2 {
						return panicR()
					}
					return okR(f.Call(v))
				})
			}}
	case "Await":
		// Await blocks the calling goroutine on a channel, which a cooperative scheduler thread must
		// never do; it is therefore only applied to a future that is already complete (inside that
		// future's own completion callback), where it has to return the result without waiting. Should
		// it wait nevertheless, the short timeout turns that into a 408 failure (wrong value), not a hang.
		a := g.gen(budget)
		f := g.intFn()
		return &node{desc: fmt.Sprintf("Await%s(%s,%v)", xs, a.desc, f), size: sizeOf(a), srcs: a.srcs,
			build: func(e *env) fp.Future[int] {
				fa := a.build(e)
				return future.TransformWith(fa, func(fp.Try[int]) fp.Future[int] {
					return future.Map(future.FromTry(future.Await(fa, 50*time.Millisecond)), f.Call)
				}, execOf(x)...)
			},
			ref: func(st []R) R { return bind(a.ref(st), func(v int) R { return okR(f.Call(v)) }) }}
	case "m.OnSuccess", "m.Foreach", "m.OnFailure":
		// the callback-registering methods, turned into a derived future through a harness promise:
		// m.OnSuccess / m.Foreach behave like Map (failure forwarded by OnFailure), m.OnFailure like Recover
		// (success forwarded by OnSuccess). A second delivery panics in the callback (signature "panic").
		a := g.gen(budget)
		f := g.intFn()
		return &node{desc: fmt.Sprintf("%s%s(%s,%v)", op, xs, a.desc, f), size: sizeOf(a), srcs: a.srcs,
			build: func(e *env) fp.Future[int] {
				fa := a.build(e)
				np := fp.NewPromise[int]()
				once := func(first bool) {
					if !first {
						panic(op + ": a second callback was delivered for the same future")
					}
				}
				switch op {
				case "m.OnSuccess":
					fa.OnSuccess(func(v int) { once(np.Success(f.Call(v))) }, execOf(x)...)
					fa.OnFailure(func(err error) { once(np.Failure(err)) }, execOf(x)...)
				case "m.Foreach":
					fa.Foreach(func(v int) { once(np.Success(f.Call(v))) }, execOf(x)...)
					fa.OnFailure(func(err error) { once(np.Failure(err)) }, execOf(x)...)
				default:
					fa.OnFailure(func(err error) { once(np.Success(400 + errIdx(err))) }, execOf(x)...)
					fa.OnSuccess(func(v int) { once(np.Success(f.Call(v))) }, execOf(x)...)
				}
				return np.Future()
			},
			ref: func(st []R) R {
				r := a.ref(st)
				if r.Bot {
					return bot
				}
				if r.Ok {
					return okR(f.Call(r.V))
				}
				if op == "m.OnFailure" {
					return okR(400 + errIdxR(r))
				}
				return r
			}}
	case "m.String":
		// String() must describe the state the future is in: "(not completed)" or the completed result.
		a := g.gen(budget)
		f := g.intFn()
		return &node{desc: fmt.Sprintf("m.String%s(%s,%v)", xs, a.desc, f), size: sizeOf(a), srcs: a.srcs,
			build: func(e *env) fp.Future[int] {
				fa := a.build(e)
				if s := fa.String(); !strings.HasSuffix(s, "(not completed)") && !fa.IsCompleted() {
					panic(fmt.Sprintf("String() = %q for a future that is not completed", s))
				}
				return future.Map(fa, func(v int) int {
					if s, want := fa.String(), fmt.Sprintf("Future(Success(%d))", v); s != want {
						panic(fmt.Sprintf("String() = %q inside the success callback, want %q", s, want))
					}
					return f.Call(v)
				}, execOf(x)...)
			},
			ref: func(st []R) R { return bind(a.ref(st), func(v int) R { return okR(f.Call(v)) }) }}
	case "Chain1", "Applicative1":
		a := g.gen(budget)
		f := g.intFn()
		how := rapid.IntRange(0, 3).Draw(t, "how")
		return &node{desc: fmt.Sprintf("%s(%v).ap%d(%s)", op, f, how, a.desc), size: sizeOf(a), srcs: a.srcs,
			build: func(e *env) fp.Future[int] {
				if op == "Chain1" {
					c := future.Chain1(fp.Func1[int, int](f.Call))
					switch how {
					case 0:
						return c.ApFuture(a.build(e))
					case 1:
						return c.ApFutureFunc(func() fp.Future[int] { return a.build(e) }, execOf(x)...)
					case 2:
						return c.FlatMap(func(hlistNil) fp.Future[int] { return a.build(e) }, execOf(x)...)
					default:
						return c.HListFlatMap(func(hlistNil) fp.Future[int] { return a.build(e) }, execOf(x)...)
					}
				}
				c := future.Applicative1(fp.Func1[int, int](f.Call))
				switch how {
				case 0, 2:
					return c.ApFuture(a.build(e))
				default:
					return c.ApFutureFunc(func() fp.Future[int] { return a.build(e) }, execOf(x)...)
				}
			},
			ref: func(st []R) R { return bind(a.ref(st), func(v int) R { return okR(f.Call(v)) }) }}
	case "Map2", "Zip", "Ap", "ApFunc", "LiftA2", "LiftM2", "Chain2", "Applicative2", "With":
		a := g.gen(budget / 2)
		b := g.gen(budget / 2)
		how := rapid.IntRange(0, 2).Draw(t, "how")
		ks := []*node{}
		if op == "LiftM2" {
			ks = g.kids(rapid.IntRange(1, 2).Draw(t, "nk"), 1)
		}
		all := append([]*node{a, b}, ks...)
		return &node{desc: fmt.Sprintf("%s%s.%d(%s, %s%s)", op, xs, how, a.desc, b.desc, optDescs(ks)), size: sizeOf(all...), srcs: mergeSrcs(all...),
			build: func(e *env) fp.Future[int] {
				switch op {
				case "Map2":
					return future.Map2(a.build(e), b.build(e), comb, execOf(x)...)
				case "Zip":
					return future.Map(future.Zip(a.build(e), b.build(e)), func(tp fp.Tuple2[int, int]) int { return comb(tp.I1, tp.I2) })
				case "Ap":
					return future.Ap(future.Map(a.build(e), func(p int) fp.Func1[int, int] { return func(q int) int { return comb(p, q) } }), b.build(e), execOf(x)...)
				case "ApFunc":
					return future.ApFunc(future.Map(a.build(e), func(p int) fp.Func1[int, int] { return func(q int) int { return comb(p, q) } }), func() fp.Future[int] { return b.build(e) }, execOf(x)...)
				case "LiftA2":
					return future.LiftA2(comb, execOf(x)...)(a.build(e), b.build(e))
				case "LiftM2":
					return future.LiftM2(func(p, q int) fp.Future[int] { return pickKid(ks, comb(p, q)).build(e) }, execOf(x)...)(a.build(e), b.build(e))
				case "With":
					// With(withf, vb)(a0) = vb.map(b => withf(a0,b)); lifted over a by FlatMap
					return future.FlatMap(a.build(e), future.With(comb, b.build(e), execOf(x)...))
				case "Chain2":
					c := future.Chain2(fp.Func2[int, int, int](comb))
					switch how {
					case 0:
						return c.ApFuture(a.build(e)).ApFuture(b.build(e))
					case 1:
						return c.ApFutureFunc(func() fp.Future[int] { return a.build(e) }, execOf(x)...).ApFutureFunc(func() fp.Future[int] { return b.build(e) }, execOf(x)...)
					default:
						return c.ApFuture(a.build(e)).FlatMap(func(int) fp.Future[int] { return b.build(e) }, execOf(x)...)
					}
				default:
					c := future.Applicative2(fp.Func2[int, int, int](comb))
					switch how {
					case 0:
						return c.ApFuture(a.build(e)).ApFuture(b.build(e))
					case 1:
						return c.ApFutureFunc(func() fp.Future[int] { return a.build(e) }, execOf(x)...).ApFutureFunc(func() fp.Future[int] { return b.build(e) }, execOf(x)...)
					default:
						return c.ApFuture(a.build(e)).ApFutureFunc(func() fp.Future[int] { return b.build(e) })
					}
				}
			},
			ref: func(st []R) R {
				return bind(a.ref(st), func(p int) R {
					return bind(b.ref(st), func(q int) R {
						if op == "LiftM2" {
							return pickKid(ks, comb(p, q)).ref(st)
						}
						return okR(comb(p, q))
					})
				})
			}}
	case "Zip3", "LiftA3", "LiftA4", "LiftM3", "Chain3", "Applicative3":
		n := 3
		if op == "LiftA4" {
			n = 4
		}
		as_ := g.kids(n, budget)
		ks := []*node{}
		if op == "LiftM3" {
			ks = g.kids(rapid.IntRange(1, 2).Draw(t, "nk"), 1)
		}
		all := append(append([]*node{}, as_...), ks...)
		how := rapid.IntRange(0, 1).Draw(t, "how")
		c3 := func(p, q, r int) int { return comb(comb(p, q), r) }
		return &node{desc: fmt.Sprintf("%s%s.%d(%s%s)", op, xs, how, descs(as_), optDescs(ks)), size: sizeOf(all...), srcs: mergeSrcs(all...),
			build: func(e *env) fp.Future[int] {
				switch op {
				case "Zip3":
					return future.Map(future.Zip3(as_[0].build(e), as_[1].build(e), as_[2].build(e)), func(tp fp.Tuple3[int, int, int]) int { return c3(tp.I1, tp.I2, tp.I3) })
				case "LiftA3":
					return future.LiftA3(c3, execOf(x)...)(as_[0].build(e), as_[1].build(e), as_[2].build(e))
				case "LiftA4":
					return future.LiftA4(func(p, q, r, s int) int { return comb(c3(p, q, r), s) }, execOf(x)...)(as_[0].build(e), as_[1].build(e), as_[2].build(e), as_[3].build(e))
				case "LiftM3":
					return future.LiftM3(func(p, q, r int) fp.Future[int] { return pickKid(ks, c3(p, q, r)).build(e) }, execOf(x)...)(as_[0].build(e), as_[1].build(e), as_[2].build(e))
				case "Chain3":
					c := future.Chain3(fp.Func3[int, int, int, int](c3))
					if how == 0 {
						return c.ApFuture(as_[0].build(e)).ApFuture(as_[1].build(e)).ApFuture(as_[2].build(e))
					}
					return c.ApFutureFunc(func() fp.Future[int] { return as_[0].build(e) }, execOf(x)...).FlatMap(func(int) fp.Future[int] { return as_[1].build(e) }, execOf(x)...).ApFutureFunc(func() fp.Future[int] { return as_[2].build(e) }, execOf(x)...)
				default:
					c := future.Applicative3(fp.Func3[int, int, int, int](c3))
					if how == 0 {
						return c.ApFuture(as_[0].build(e)).ApFuture(as_[1].build(e)).ApFuture(as_[2].build(e))
					}
					return c.ApFutureFunc(func() fp.Future[int] { return as_[0].build(e) }, execOf(x)...).ApFuture(as_[1].build(e)).ApFutureFunc(func() fp.Future[int] { return as_[2].build(e) }, execOf(x)...)
				}
			},
			ref: func(st []R) R {
				acc := okR(0)
				first := true
				for _, a := range as_ {
					a := a
					acc = bind(acc, func(p int) R {
						return bind(a.ref(st), func(q int) R {
							if first {
								return okR(q)
							}
							return okR(comb(p, q))
						})
					})
					first = false
				}
				if op == "LiftM3" {
					return bind(acc, func(v int) R { return pickKid(ks, v).ref(st) })
				}
				return acc
			}}
	case "Sequence", "SequenceIterator":
		n := rapid.IntRange(0, 4).Draw(t, "n")
		as_ := g.kids(n, budget)
		return &node{desc: fmt.Sprintf("%s%s[%s]", op, xs, descs(as_)), size: sizeOf(as_...), srcs: mergeSrcs(as_...),
			build: func(e *env) fp.Future[int] {
				fs := make([]fp.Future[int], len(as_))
				for i, a := range as_ {
					fs[i] = a.build(e)
				}
				if op == "Sequence" {
					return future.Map(future.Sequence(fs, execOf(x)...), foldSlice)
				}
				return future.Map(future.SequenceIterator(iterator.FromSeq(fs), execOf(x)...), func(it fp.Iterator[int]) int { return foldSlice(it.ToSeq()) })
			},
			ref: func(st []R) R {
				acc := okR(7)
				for _, a := range as_ {
					a := a
					acc = bind(acc, func(p int) R { return bind(a.ref(st), func(q int) R { return okR(comb(p, q)) }) })
				}
				return acc
			}}
	case "Traverse", "TraverseSeq", "TraverseSlice", "FoldFuture.iterator", "FoldFuture.seq", "FoldFuture.list", "FlatMapTraverseSeq", "TraverseFunc", "TraverseSeqFunc", "TraverseSliceFunc":
		items := rapid.SliceOfN(rapid.IntRange(0, 5), 0, 4).Draw(t, "items")
		ks := g.kids(rapid.IntRange(1, 3).Draw(t, "nk"), budget)
		return &node{desc: fmt.Sprintf("%s%s(%v, i=>[%s])", op, xs, items, descs(ks)), size: sizeOf(ks...), srcs: mergeSrcs(ks...),
			build: func(e *env) fp.Future[int] {
				fn := func(i int) fp.Future[int] { return pickKid(ks, i).build(e) }
				step := func(acc int, i int) fp.Future[int] {
					return future.Map(fn(i), func(v int) int { return comb(acc, v) })
				}
				switch op {
				case "Traverse":
					return future.Map(future.Traverse(iterator.FromSeq(items), fn, execOf(x)...), func(it fp.Iterator[int]) int { return foldSlice(it.ToSeq()) })
				case "TraverseSeq":
					return future.Map(future.TraverseSeq(items, fn, execOf(x)...), func(s fp.Seq[int]) int { return foldSlice(s) })
				case "TraverseSlice":
					return future.Map(future.TraverseSlice(items, fn, execOf(x)...), foldSlice)
				case "TraverseFunc":
					return future.Map(future.TraverseFunc(fn, execOf(x)...)(iterator.FromSeq(items)), func(it fp.Iterator[int]) int { return foldSlice(it.ToSeq()) })
				case "TraverseSeqFunc":
					return future.Map(future.TraverseSeqFunc(fn, execOf(x)...)(items), func(s fp.Seq[int]) int { return foldSlice(s) })
				case "TraverseSliceFunc":
					return future.Map(future.TraverseSliceFunc(fn, execOf(x)...)(items), foldSlice)
				case "FlatMapTraverseSeq":
					return future.Map(future.FlatMapTraverseSeq(future.Successful(fp.Seq[int](items)), fn, execOf(x)...), func(s fp.Seq[int]) int { return foldSlice(s) })
				case "FoldFuture.iterator":
					return iterator.FoldFuture(iterator.FromSeq(items), 7, step, execOf(x)...)
				case "FoldFuture.seq":
					return seq.FoldFuture(items, 7, step, execOf(x)...)
				default:
					return list.FoldFuture(list.Of(items...), 7, step, execOf(x)...)
				}
			},
			ref: func(st []R) R {
				acc := okR(7)
				for _, i := range items {
					i := i
					acc = bind(acc, func(p int) R { return bind(pickKid(ks, i).ref(st), func(q int) R { return okR(comb(p, q)) }) })
				}
				return acc
			}}
	}
	panic("unknown op " + op)
}

type hlistNil = hlist.Nil

func futureMap2(a, b fp.Future[int]) fp.Future[int] { return future.Map2(a, b, comb) }

func optDescs(ks []*node) string {
	if len(ks) == 0 {
		return ""
	}
	return " =>[" + descs(ks) + "]"
}

func foldSlice(s []int) int {
	acc := 7
	for _, v := range s {
		acc = comb(acc, v)
	}
	return acc
}

func fromTry(t fp.Try[int]) R {
	if t.IsSuccess() {
		return okR(t.Get())
	}
	err := t.Failed().Get()
	if _, ok := err.(interface{ Panic() any }); ok {
		return R{Panic: true, Err: err}
	}
	return failR(err)
}

func errIdxR(r R) int {
	if r.Panic {
		return 99
	}
	return errIdx(r.Err)
}

// same compares an observed result with the reference.
func same(got R, want R) bool {
	if got.Bot || want.Bot {
		return got.Bot == want.Bot
	}
	if got.Ok != want.Ok {
		return false
	}
	if got.Ok {
		return got.V == want.V
	}
	if want.Panic {
		return got.Panic
	}
	return !got.Panic && errors.Is(got.Err, want.Err)
}

var _ = as.Seq[int]
