package c06

import (
	"fmt"
	"sort"
	"strings"
	"testing"

	"github.com/csgura/fp"
	"pgregory.net/rapid"

	"verifharness/kit"
)

func TestMain(m *testing.M) {
	fp.VerifSetAtomicHook(kit.HookYield)
	fp.VerifSetSpawn(spawnHook)
	kit.Main(m)
}

// spawnHook hands every task of the default executors to the active scheduler. In this package every
// library call that can reach a default executor is made from a scheduler thread, so "no active
// scheduler" only happens in a thread that is being torn down: when a run is abandoned (a thread
// panicked, or rapid aborted a shrink attempt inside a schedule decision) the parked threads are
// unwound with a kill panic, and a thread parked inside the body of Apply/Apply2/Func* has that panic
// captured by the library's own recover and carries on outside the scheduler. Its tasks are dropped:
// started as real goroutines they would outlive the case and step into the scheduler of the next one
// (seen as `fatal|panic:(kit.killed)` while shrinking a failure). Runs that end normally never get here.
func spawnHook(run func()) bool {
	kit.HookSpawn(run)
	return true
}

type probe struct {
	name  string
	calls int
	vals  []R
}

type scenario struct {
	root    *node
	nSrc    int
	results []R   // result assigned to each source
	phase   []int // -1: completed before construction; 0: concurrently with construction; 1..: later phases
	nPhase  int
	desc    string
}

func drawScenario(rt *rapid.T, g *gctx, mkRoot func() *node) *scenario {
	sc := &scenario{nSrc: g.nSrc}
	sc.root = mkRoot()
	sc.nPhase = rapid.IntRange(1, 3).Draw(rt, "phases")
	for i := 0; i < g.nSrc; i++ {
		if rapid.IntRange(0, 2).Draw(rt, "srcFails") == 0 {
			sc.results = append(sc.results, failR(kit.Errs[i]))
		} else {
			sc.results = append(sc.results, okR(rapid.IntRange(0, 6).Draw(rt, "srcVal")))
		}
		sc.phase = append(sc.phase, rapid.IntRange(-1, sc.nPhase-1).Draw(rt, "srcPhase"))
	}
	var sb strings.Builder
	sb.WriteString(sc.root.desc)
	for i := 0; i < g.nSrc; i++ {
		fmt.Fprintf(&sb, " | src%d=%v@%d", i, sc.results[i], sc.phase[i])
	}
	sc.desc = sb.String()
	return sc
}

// nontrivial: the tree depends on >= 1 source that is completed concurrently with or after the
// construction, and >= 1 operand (a used source or a constant leaf) fails.
// strong: additionally >= 2 used sources that are not completed in positional order.
func (sc *scenario) nontrivial() (nt bool, strong bool) {
	var used []int
	for i := range sc.root.srcs {
		used = append(used, i)
	}
	sort.Ints(used)
	anyFail := strings.Contains(sc.root.desc, "Failed(") || strings.Contains(sc.root.desc, "panic") || strings.Contains(sc.root.desc, "None") || strings.Contains(sc.root.desc, "(_,")
	late, outOfOrder := false, false
	for k, i := range used {
		if !sc.results[i].Ok {
			anyFail = true
		}
		if sc.phase[i] >= 0 {
			late = true
		}
		if k > 0 {
			p, q := sc.phase[used[k-1]], sc.phase[i]
			if q < p || (p == q && p >= 0) { // later source earlier, or racing in the same concurrent phase
				outOfOrder = true
			}
		}
	}
	return late && anyFail, late && anyFail && outOfOrder
}

func complete(p fp.Promise[int], r R) bool {
	if r.Ok {
		return p.Success(r.V)
	}
	return p.Failure(r.Err)
}

// run executes the scenario; newPick gives the decision source for each phase.
func (sc *scenario) run(newPick func() func(n int, rs []*kit.Thread) int, fail func(sig, msg string)) (steps int) {
	e := &env{}
	for i := 0; i < sc.nSrc; i++ {
		e.srcs = append(e.srcs, fp.NewPromise[int]())
		e.st = append(e.st, bot)
	}
	// sources completed before the expression is built
	for i := 0; i < sc.nSrc; i++ {
		if sc.phase[i] == -1 {
			e.st[i] = sc.results[i]
			complete(e.srcs[i], sc.results[i])
		}
	}
	var root fp.Future[int]
	built := false
	var first *R
	probes := []*probe{}
	addProbe := func(name string) {
		p := &probe{name: name}
		probes = append(probes, p)
		root.OnComplete(func(t fp.Try[int]) {
			p.calls++
			p.vals = append(p.vals, fromTry(t))
		}, inlineExec{})
	}
	failed := false
	failOnce := func(sig, msg string) {
		if !failed {
			failed = true
			fail(sig, msg)
		}
	}
	observe := func(when string) {
		// invariant: completed => the reference is defined and equal ("never earlier", "value never changes")
		if !built {
			return
		}
		var got R = bot
		kit.Quiet(func() {
			if root.IsCompleted() {
				got = fromTry(root.Value())
			}
		})
		if got.Bot {
			return
		}
		want := sc.root.ref(e.st)
		if want.Bot {
			failOnce("completed-too-early", fmt.Sprintf("%s: the derived future is completed with %v although the sources it depends on are not complete (sources: %v)", when, got, e.st))
			return
		}
		if !same(got, want) {
			failOnce("wrong-value", fmt.Sprintf("%s: derived future completed with %v, evaluation over Try gives %v (sources: %v)", when, got, want, e.st))
			return
		}
		if first == nil {
			g := got
			first = &g
		} else if !same(got, *first) {
			failOnce("value-changed", fmt.Sprintf("%s: Value changed from %v to %v", when, *first, got))
		}
	}
	for ph := 0; ph < sc.nPhase && !failed; ph++ {
		s := kit.NewSched()
		s.MaxSteps = 200000
		if ph == 0 {
			s.Go("build", func() {
				root = sc.root.build(e)
				built = true
				addProbe("early")
			})
		} else if ph == 1 {
			s.Go("probe", func() { addProbe("mid") })
		}
		for i := 0; i < sc.nSrc; i++ {
			if sc.phase[i] == ph {
				i := i
				s.Go(fmt.Sprintf("complete%d", i), func() {
					e.st[i] = sc.results[i] // completion has begun
					complete(e.srcs[i], sc.results[i])
				})
			}
		}
		s.OnStep = func(step int, t *kit.Thread) { observe(fmt.Sprintf("phase %d step %d", ph, step)) }
		res := s.Run(newPick())
		steps += res.Steps
		trace := strings.Join(s.Trace, " ")
		if len(trace) > 1200 {
			trace = trace[:1200] + "…"
		}
		if res.Panic != nil {
			failOnce("panic", fmt.Sprintf("phase %d: thread %s panicked: %v\n%s\ntrace: %s", ph, res.PanicIn, res.Panic, res.PanicInfo, trace))
			return
		}
		if res.Overrun {
			failOnce("livelock", fmt.Sprintf("phase %d: no quiescence within the step bound; trace: %s", ph, trace))
			return
		}
		if failed {
			return
		}
		// quiescence: nothing can run any more
		want := sc.root.ref(e.st)
		var got R = bot
		if root.IsCompleted() {
			got = fromTry(root.Value())
		}
		if want.Bot && !got.Bot {
			failOnce("completed-too-early", fmt.Sprintf("quiescence after phase %d: completed with %v but the evaluation still waits for a source (sources: %v)", ph, got, e.st))
			return
		}
		if !want.Bot && got.Bot {
			failOnce("never-completes", fmt.Sprintf("quiescence after phase %d: every task has run, the evaluation over Try gives %v, but the derived future is not completed (sources: %v); trace: %s", ph, want, e.st, trace))
			return
		}
		if !same(got, want) {
			failOnce("wrong-value", fmt.Sprintf("quiescence after phase %d: derived future = %v, evaluation over Try = %v (sources: %v)", ph, got, want, e.st))
			return
		}
	}
	if failed {
		return
	}
	// complete whatever is left (sources the phases did not cover cannot exist, but be safe) and do the final checks
	final := sc.root.ref(e.st)
	if !final.Bot {
		addProbe("late")
		for _, p := range probes {
			if p.calls != 1 {
				failOnce("probe-exactly-once", fmt.Sprintf("OnComplete probe %q fired %d times", p.name, p.calls))
				return
			}
			if !same(p.vals[0], final) {
				failOnce("probe-value", fmt.Sprintf("OnComplete probe %q saw %v, want %v", p.name, p.vals[0], final))
				return
			}
		}
	} else {
		for _, p := range probes {
			if p.calls != 0 {
				failOnce("probe-before-completion", fmt.Sprintf("OnComplete probe %q fired although the future cannot be complete", p.name))
			}
		}
	}
	return
}

const ruleTree = "expression tree over the future combinators (leaves: source promises, Successful/Failed, Apply/Apply2/Func1 bodies incl. panicking ones; executors default/thread/inline/nil per node) + results assigned to sources (success or distinct failure) + for every source the phase in which it is completed (before construction, concurrently with construction, later) + a generated schedule at the granularity of atomic steps and spawned tasks; oracle: the same tree evaluated over Try ∪ {⊥} (left-to-right short-circuit), checked after every scheduler step (completed ⇒ reference defined and equal; value never changes) and at every quiescence (reference defined ⇔ completed), probes fire exactly once; non-trivial iff the tree depends on >= 1 source completed concurrently with or after construction and >= 1 operand fails (label multi-source-out-of-order: additionally >= 2 used sources not completed in positional order); distinct by tree+assignment+phases"

func treeCheck(t *testing.T, name string, pct bool, ops []string, rootOp string, weight float64) {
	kit.Check(t, name, ruleTree, kit.Opt{Weight: weight}, func(rt *rapid.T, rec *kit.Rec) {
		g := &gctx{t: rt, nSrc: rapid.IntRange(1, 4).Draw(rt, "nSrc")}
		if ops != nil {
			g.ops = map[string]bool{}
			for _, o := range ops {
				g.ops[o] = true
			}
		}
		budget := kit.Pick(6, 14)
		sc := drawScenario(rt, g, func() *node {
			if rootOp != "" {
				return g.mk(rootOp, budget-1)
			}
			return g.gen(budget)
		})
		newPick := func() func(n int, rs []*kit.Thread) int {
			if pct {
				return kit.PCTPick(rt, rapid.IntRange(0, 3).Draw(rt, "d"), 60)
			}
			return kit.UniformPick(rt)
		}
		var fs, fm string
		steps := sc.run(newPick, func(sig, msg string) { fs, fm = sig, msg })
		nt, strong := sc.nontrivial()
		rec.Case(nt, sc.desc)
		if nt {
			rec.Label("nontrivial")
		}
		if strong {
			rec.Label("multi-source-out-of-order")
		}
		rec.LabelN("steps", int64(steps))
		if fs != "" {
			site := rootOp
			if site == "" {
				site = "tree"
			}
			rec.Failf(rt, "C06|"+site+"|"+fs, "%s\nexpression: %s", fm, sc.desc)
		}
	})
}

func TestPerCombinator(t *testing.T) {
	// one sub-check per combinator: the combinator at the root, sub-expressions restricted to
	// leaves and Map so that a defect elsewhere cannot hide or fake a failure here.
	var all []string
	all = append(all, unaryOps...)
	all = append(all, binaryOps...)
	all = append(all, naryOps...)
	for _, op := range all {
		treeCheck(t, "op/"+op, false, []string{op, "Map"}, op, 0.25)
	}
}

func TestTrees(t *testing.T) {
	treeCheck(t, "tree/uniform", false, nil, "", 1)
	treeCheck(t, "tree/pct", true, nil, "", 1)
}

// ---- exhaustive schedules for small fixed expressions -------------------------------

func TestExhaustive(t *testing.T) {
	type fixed struct {
		name string
		ops  []string
		mk   func(g *gctx) *node
	}
	src := func(i int) *node {
		return &node{desc: fmt.Sprintf("src%d", i), size: 1, srcs: map[int]bool{i: true},
			build: func(e *env) fp.Future[int] { return e.srcs[i].Future() },
			ref:   func(st []R) R { return st[i] }}
	}
	_ = src
	kit.Plain(t, "dfs/Map2(src0,src1)", "every schedule of: builder thread constructing Map2(src0,src1) with default executors, racing with completer threads for src0 (failure) and src1 (success); invariant as in the tree checks", func(t *testing.T, rec *kit.Rec) {
		d := kit.NewDFS()
		max := kit.Pick(6000, 1500000)
		for d.Next() {
			if d.Runs > max {
				break
			}
			a, b := src(0), src(1)
			root := &node{desc: "Map2(src0,src1)", srcs: map[int]bool{0: true, 1: true},
				build: func(e *env) fp.Future[int] { return futureMap2(a.build(e), b.build(e)) },
				ref: func(st []R) R {
					return bind(st[0], func(p int) R { return bind(st[1], func(q int) R { return okR(comb(p, q)) }) })
				}}
			sc := &scenario{root: root, nSrc: 2, results: []R{failR(kit.Errs[0]), okR(3)}, phase: []int{0, 0}, nPhase: 1, desc: root.desc}
			var fs, fm string
			sc.run(func() func(n int, rs []*kit.Thread) int {
				return func(n int, rs []*kit.Thread) int { return d.Pick(n) }
			}, func(sig, msg string) { fs, fm = sig, msg })
			rec.Case(true, fmt.Sprint(d.Choices()))
			if fs != "" {
				rec.PlainFail(t, "C06|dfs.Map2|"+fs, "schedule %v: %s", d.Choices(), fm)
			}
		}
		rec.Extra("exhaustive", d.Runs <= max)
		rec.Extra("schedules", d.Runs)
	})
}

// ---- fan-out: many combinators registering on ONE source from concurrent threads -------------------
// (added after the sensitivity run: a lost callback registration on a shared promise only shows when
// several registrations race on a promise that already has >= 3 callbacks)
func TestFanOut(t *testing.T) {
	kit.Check(t, "fanout/concurrent-builders", "one source promise with 0-6 callbacks already registered; 2-4 builder threads each derive Map/FlatMap/Recover futures from it concurrently, one completer thread; generated schedule; oracle: at quiescence every derived future is completed with f(source result) (reference over Try); non-trivial iff >= 3 callbacks were pre-registered and >= 2 builders raced; distinct by configuration+trace", kit.Opt{}, func(rt *rapid.T, rec *kit.Rec) {
		nPre := rapid.IntRange(0, 6).Draw(rt, "nPre")
		nB := rapid.IntRange(2, 4).Draw(rt, "builders")
		fails := rapid.IntRange(0, 3).Draw(rt, "srcFails") == 0
		kinds := make([]int, nB)
		fns := make([]kit.IntFn, nB)
		for i := range kinds {
			kinds[i] = rapid.IntRange(0, 2).Draw(rt, "kind")
			fns[i] = kit.IntFnGen().Draw(rt, "fn")
		}
		src := fp.NewPromise[int]()
		preCalls := make([]int, nPre)
		for i := 0; i < nPre; i++ {
			i := i
			src.Future().OnComplete(func(fp.Try[int]) { preCalls[i]++ }, inlineExec{})
		}
		derived := make([]fp.Future[int], nB)
		built := make([]bool, nB)
		s := kit.NewSched()
		s.MaxSteps = 100000
		for i := 0; i < nB; i++ {
			i := i
			s.Go(fmt.Sprintf("build%d", i), func() {
				switch kinds[i] {
				case 0:
					derived[i] = src.Future().Map(fns[i].Call)
				case 1:
					derived[i] = src.Future().FlatMap(func(v int) fp.Future[int] {
						p := fp.NewPromise[int]()
						p.Success(fns[i].Call(v))
						return p.Future()
					})
				default:
					derived[i] = src.Future().Recover(func(error) int { return -7 })
				}
				built[i] = true
			})
		}
		var result R
		if fails {
			result = failR(kit.Errs[0])
		} else {
			result = okR(rapid.IntRange(0, 6).Draw(rt, "srcVal"))
		}
		s.Go("complete", func() { complete(src, result) })
		res := s.Run(kit.UniformPick(rt))
		trace := strings.Join(s.Trace, " ")
		if len(trace) > 1200 {
			trace = trace[:1200] + "…"
		}
		rec.Case(nPre >= 3, fmt.Sprintf("pre=%d builders=%v fns=%v src=%v | %s", nPre, kinds, fns, result, trace))
		if res.Panic != nil {
			rec.Failf(rt, "C06|fanout|panic", "thread %s panicked: %v\n%s", res.PanicIn, res.Panic, res.PanicInfo)
		}
		if res.Overrun {
			rec.Failf(rt, "C06|fanout|livelock", "no quiescence; trace: %s", trace)
		}
		for i := 0; i < nPre; i++ {
			if preCalls[i] != 1 {
				rec.Failf(rt, "C06|fanout|callback-count", "pre-registered callback %d ran %d times; trace: %s", i, preCalls[i], trace)
			}
		}
		for i := 0; i < nB; i++ {
			var want R
			switch kinds[i] {
			case 0, 1:
				want = bind(result, func(v int) R { return okR(fns[i].Call(v)) })
			default:
				want = result
				if !result.Ok {
					want = okR(-7)
				}
			}
			if !built[i] {
				rec.Failf(rt, "C06|fanout|builder-not-finished", "builder %d did not finish", i)
			}
			if !derived[i].IsCompleted() {
				rec.Failf(rt, "C06|fanout|never-completes", "derived future %d (kind %d) is not completed at quiescence although its source is (%v); %d callbacks were registered before the race; trace: %s", i, kinds[i], result, nPre, trace)
			}
			if got := fromTry(derived[i].Value()); !same(got, want) {
				rec.Failf(rt, "C06|fanout|wrong-value", "derived future %d = %v, want %v", i, got, want)
			}
		}
	})
}
