package c12

import (
	"fmt"
	"strings"
	"testing"
	"time"

	"github.com/csgura/fp"
	"github.com/csgura/fp/iterator"
	"github.com/csgura/fp/list"
	"pgregory.net/rapid"

	"verifharness/kit"
)

// ---------------------------------------------------------------------------
// pipeline AST

// pred: table predicate over x mod k, or a threshold predicate.
type pred struct {
	Kind int // 0 table, 1 x==C, 2 x<C, 3 x>=C
	Tab  []bool
	C    int
}

func (p pred) Call(x int) bool {
	switch p.Kind {
	case 1:
		return x == p.C
	case 2:
		return x < p.C
	case 3:
		return x >= p.C
	}
	k := len(p.Tab)
	return p.Tab[((x%k)+k)%k]
}

func (p pred) String() string {
	switch p.Kind {
	case 1:
		return fmt.Sprintf("λx.x==%d", p.C)
	case 2:
		return fmt.Sprintf("λx.x<%d", p.C)
	case 3:
		return fmt.Sprintf("λx.x>=%d", p.C)
	}
	return fmt.Sprintf("λx.%v[x mod %d]", p.Tab, len(p.Tab))
}

// sem is the meaning of a stage in the slice reference.
type sem int

const (
	sMap sem = iota
	sFilter
	sFilterNot
	sFilterMap
	sFlatMap
	sTake
	sDrop
	sTakeWhile
	sDropWhile
	sSuffix   // cur ++ Ys
	sPrefix   // Ys ++ cur
	sAppend1  // cur ++ [N]
	sPrepend1 // [N] ++ cur
	sZipIdx   // (i,x) -> x + F(i)
	sZipL     // zip(Ys, cur) -> x + 100*y ; Ys is consulted first
	sZipR     // zip(cur, Ys) -> x + 100*y ; cur is consulted first
	sScan     // seed N, acc' = (acc*3 + x) mod 1009
	sTap
)

type opInfo struct {
	Name      string
	Sem       sem
	LookAhead bool // the stage has to inspect elements it may not emit / caches
	Unbounded bool // may be used over an unbounded source
}

var iterOps = []opInfo{
	{"Map", sMap, false, true},
	{"iterator.Map", sMap, false, true},
	{"Filter", sFilter, true, true},
	{"FilterNot", sFilterNot, true, true},
	{"iterator.FilterMap", sFilterMap, true, true},
	{"FlatMap", sFlatMap, true, true},
	{"iterator.FlatMap", sFlatMap, true, true},
	{"Take", sTake, false, true},
	{"Drop", sDrop, false, true},
	{"TakeWhile", sTakeWhile, true, true},
	{"DropWhile", sDropWhile, true, true},
	{"Concat", sSuffix, true, true},
	{"Concat.prefix", sPrefix, true, true},
	{"Appended", sAppend1, true, true},
	{"iterator.Concat", sPrepend1, true, true},
	{"iterator.ZipWithIndex", sZipIdx, false, true},
	{"iterator.Zip.L", sZipL, true, true},
	{"iterator.Zip.R", sZipR, true, false},
	{"iterator.Scan", sScan, false, true},
	{"TapEach", sTap, false, true},
}

var listOps = []opInfo{
	{"list.Map", sMap, false, true},
	{"list.FilterMap", sFilterMap, true, true},
	{"list.FlatMap", sFlatMap, true, true},
	{"list.Combine", sSuffix, true, true},
	{"list.Combine.prefix", sPrefix, true, true},
	{"list.Concat", sPrepend1, false, true},
	{"list.ZipWithIndex", sZipIdx, false, true},
	{"list.Zip.L", sZipL, true, true},
	{"list.Zip.R", sZipR, true, false},
	{"list.Scan", sScan, false, true},
	{"Take.viaIterator", sTake, false, false},
	{"Drop.viaIterator", sDrop, false, false},
	{"TakeWhile.viaIterator", sTakeWhile, true, false},
	{"DropWhile.viaIterator", sDropWhile, true, false},
}

// ExcludeStages lists stage names (opInfo.Name, e.g. "Filter", "FilterNot")
// that the "*-excl" variants of the pipeline laziness sub-checks remove from
// generated pipelines. It is empty by default; it is meant to be filled when a
// laziness defect of one stage is recorded as a known finding instead of being
// repaired, so that the search continues behind that stage. The variants are
// only registered when the list is non-empty.
var ExcludeStages = []string{}

func excluded(name string) bool {
	for _, x := range ExcludeStages {
		if x == name {
			return true
		}
	}
	return false
}

type stage struct {
	Op opInfo
	F  kit.IntFn
	P  pred
	N  int
	Ys []int
	In innerTab
	K  int // construction kind of embedded iterators / lists
}

func (s stage) String() string {
	switch s.Op.Sem {
	case sMap, sZipIdx:
		return fmt.Sprintf("%s(%v)", s.Op.Name, s.F)
	case sFilter, sFilterNot, sTakeWhile, sDropWhile:
		return fmt.Sprintf("%s(%v)", s.Op.Name, s.P)
	case sFilterMap:
		return fmt.Sprintf("%s(%v,%v)", s.Op.Name, s.P, s.F)
	case sFlatMap:
		return fmt.Sprintf("%s(%v,k%d)", s.Op.Name, s.In, s.K)
	case sTake, sDrop, sAppend1, sPrepend1, sScan:
		return fmt.Sprintf("%s(%d)", s.Op.Name, s.N)
	case sSuffix, sPrefix, sZipL, sZipR:
		return fmt.Sprintf("%s(%v,k%d)", s.Op.Name, s.Ys, s.K)
	}
	return s.Op.Name
}

func showPipe(st []stage) string {
	ss := []string{}
	for _, s := range st {
		ss = append(ss, s.String())
	}
	return strings.Join(ss, " | ")
}

func scanStep(acc, x int) int { return (((acc*3 + x) % 1009) + 1009) % 1009 }

// genPred draws a predicate. periodic: a table over x mod m (m 2..4) with at
// least one true and one false entry (never constant, so that Filter/DropWhile
// cannot legitimately diverge on a source that cycles through all residues).
func genPred(rt *rapid.T, periodic bool, lo int) pred {
	if periodic {
		tab := rapid.SliceOfN(rapid.Bool(), 2, 4).Draw(rt, "ptab")
		allSame := true
		for _, b := range tab {
			if b != tab[0] {
				allSame = false
			}
		}
		if allSame {
			tab[0] = !tab[0]
		}
		return pred{Tab: tab}
	}
	kind := rapid.IntRange(0, 5).Draw(rt, "pkind")
	if kind >= 1 && kind <= 3 {
		return pred{Kind: kind, C: lo + rapid.IntRange(0, 12).Draw(rt, "pc")}
	}
	return pred{Tab: rapid.SliceOfN(rapid.Bool(), 1, 4).Draw(rt, "ptab")}
}

func genStageOf(rt *rapid.T, op opInfo, periodic bool, lo int) stage {
	s := stage{Op: op}
	switch op.Sem {
	case sMap, sZipIdx:
		s.F = kit.IntFnGen().Draw(rt, "f")
	case sFilter, sFilterNot, sTakeWhile, sDropWhile:
		s.P = genPred(rt, periodic, lo)
	case sFilterMap:
		s.P = genPred(rt, periodic, lo)
		s.F = kit.IntFnGen().Draw(rt, "f")
	case sFlatMap:
		s.In = innerGen().Draw(rt, "in")
		s.K = rapid.IntRange(0, 4).Draw(rt, "k")
	case sTake, sDrop:
		s.N = rapid.IntRange(0, 6).Draw(rt, "n")
	case sAppend1, sPrepend1, sScan:
		s.N = rapid.IntRange(-3, 8).Draw(rt, "n")
	case sSuffix, sPrefix, sZipL, sZipR:
		s.Ys = kit.IntSlice(3).Draw(rt, "ys")
		s.K = rapid.IntRange(0, 4).Draw(rt, "k")
	}
	return s
}

// genPipeline draws 1..maxStages stages from ops.
func genPipeline(rt *rapid.T, ops []opInfo, maxStages int, periodic bool) []stage {
	n := rapid.IntRange(1, maxStages).Draw(rt, "nstages")
	out := []stage{}
	for i := 0; i < n; i++ {
		op := ops[rapid.IntRange(0, len(ops)-1).Draw(rt, "op")]
		out = append(out, genStageOf(rt, op, periodic, 0))
	}
	return out
}

func unboundedOps(ops []opInfo) []opInfo {
	out := []opInfo{}
	for _, o := range ops {
		if o.Unbounded {
			out = append(out, o)
		}
	}
	return out
}

// ---------------------------------------------------------------------------
// slice reference. A strm is a known prefix of a stream; done tells that the
// stream is known to end there. Every stage is monotone: extending the input
// prefix extends the output prefix, and a done output is final.

type strm struct {
	e    []int
	done bool
}

const truncAt = 4096

func refStage(st stage, in strm) strm {
	switch st.Op.Sem {
	case sMap:
		return strm{rMap(in.e, st.F.Call), in.done}
	case sFilter:
		return strm{rFilter(in.e, st.P.Call), in.done}
	case sFilterNot:
		return strm{rFilter(in.e, func(x int) bool { return !st.P.Call(x) }), in.done}
	case sFilterMap:
		return strm{rMap(rFilter(in.e, st.P.Call), st.F.Call), in.done}
	case sFlatMap:
		return strm{rFlatMap(in.e, st.In.Call), in.done}
	case sTake:
		if len(in.e) >= st.N {
			return strm{rTake(in.e, st.N), true}
		}
		return strm{cp(in.e), in.done}
	case sDrop:
		return strm{rDrop(in.e, st.N), in.done}
	case sTakeWhile:
		out := rTakeWhile(in.e, st.P.Call)
		if len(out) < len(in.e) {
			return strm{out, true}
		}
		return strm{out, in.done}
	case sDropWhile:
		return strm{rDropWhile(in.e, st.P.Call), in.done}
	case sSuffix:
		if in.done {
			return strm{rCat(in.e, st.Ys), true}
		}
		return strm{cp(in.e), false}
	case sPrefix:
		return strm{rCat(st.Ys, in.e), in.done}
	case sAppend1:
		if in.done {
			return strm{rCat(in.e, []int{st.N}), true}
		}
		return strm{cp(in.e), false}
	case sPrepend1:
		return strm{rCat([]int{st.N}, in.e), in.done}
	case sZipIdx:
		out := []int{}
		for i, x := range in.e {
			out = append(out, x+st.F.Call(i))
		}
		return strm{out, in.done}
	case sZipL, sZipR:
		out := []int{}
		for i := 0; i < len(in.e) && i < len(st.Ys); i++ {
			out = append(out, in.e[i]+100*st.Ys[i])
		}
		return strm{out, in.done || len(in.e) >= len(st.Ys)}
	case sScan:
		return strm{rScan(in.e, st.N, scanStep), in.done}
	case sTap:
		return strm{cp(in.e), in.done}
	}
	panic("unknown stage")
}

func trunc(s strm) strm {
	if len(s.e) > truncAt {
		return strm{s.e[:truncAt], false}
	}
	return s
}

// refRun returns the streams after every stage (index 0 = the source).
// truncate: cut intermediate streams at truncAt elements (marking them not
// done); used only for prefixes of unbounded sources, where it is sound (a
// shorter known prefix) and keeps FlatMap towers cheap.
func refRun(stages []stage, src strm, truncate bool) []strm {
	out := []strm{src}
	cur := src
	for _, st := range stages {
		cur = refStage(st, cur)
		if truncate {
			cur = trunc(cur)
		}
		out = append(out, cur)
	}
	return out
}

func refFinal(stages []stage, src strm, truncate bool) strm {
	r := refRun(stages, src, truncate)
	return r[len(r)-1]
}

// ---------------------------------------------------------------------------
// library interpreters

func applyIter(cur fp.Iterator[int], st stage, taps map[int]*[]int, idx int) fp.Iterator[int] {
	switch st.Op.Name {
	case "Map":
		return cur.Map(st.F.Call)
	case "iterator.Map":
		return iterator.Map(cur, st.F.Call)
	case "Filter":
		return cur.Filter(st.P.Call)
	case "FilterNot":
		return cur.FilterNot(st.P.Call)
	case "iterator.FilterMap":
		return iterator.FilterMap(cur, func(x int) fp.Option[int] {
			if st.P.Call(x) {
				return fp.Some(st.F.Call(x))
			}
			return fp.None[int]()
		})
	case "FlatMap":
		return cur.FlatMap(func(x int) fp.Iterator[int] { return mkIter((st.K+absI(x))%nIterKinds, st.In.Call(x)) })
	case "iterator.FlatMap":
		return iterator.FlatMap(cur, func(x int) fp.Iterator[int] { return mkIter((st.K+absI(x))%nIterKinds, st.In.Call(x)) })
	case "Take":
		return cur.Take(st.N)
	case "Drop":
		return cur.Drop(st.N)
	case "TakeWhile":
		return cur.TakeWhile(st.P.Call)
	case "DropWhile":
		return cur.DropWhile(st.P.Call)
	case "Concat":
		return cur.Concat(mkIter(st.K, st.Ys))
	case "Concat.prefix":
		return mkIter(st.K, st.Ys).Concat(cur)
	case "Appended":
		return cur.Appended(st.N)
	case "iterator.Concat":
		return iterator.Concat(st.N, cur)
	case "iterator.ZipWithIndex":
		return iterator.Map(iterator.ZipWithIndex(cur), func(t fp.Tuple2[int, int]) int { return t.I2 + st.F.Call(t.I1) })
	case "iterator.Zip.L":
		return iterator.Map(iterator.Zip(mkIter(st.K, st.Ys), cur), func(t fp.Tuple2[int, int]) int { return t.I2 + 100*t.I1 })
	case "iterator.Zip.R":
		return iterator.Map(iterator.Zip(cur, mkIter(st.K, st.Ys)), func(t fp.Tuple2[int, int]) int { return t.I1 + 100*t.I2 })
	case "iterator.Scan":
		return iterator.Scan(cur, st.N, scanStep)
	case "TapEach":
		tr := &[]int{}
		if taps != nil {
			taps[idx] = tr
		}
		return cur.TapEach(func(x int) { *tr = append(*tr, x) })
	}
	panic("unknown iterator stage " + st.Op.Name)
}

func buildIter(src fp.Iterator[int], stages []stage, taps map[int]*[]int) fp.Iterator[int] {
	cur := src
	for i, st := range stages {
		cur = applyIter(cur, st, taps, i)
	}
	return cur
}

func applyList(cur fp.List[int], st stage) fp.List[int] {
	switch st.Op.Name {
	case "list.Map":
		return list.Map(cur, st.F.Call)
	case "list.FilterMap":
		return list.FilterMap(cur, func(x int) fp.Option[int] {
			if st.P.Call(x) {
				return fp.Some(st.F.Call(x))
			}
			return fp.None[int]()
		})
	case "list.FlatMap":
		return list.FlatMap(cur, func(x int) fp.List[int] { return mkList((st.K+absI(x))%nListKinds, st.In.Call(x)) })
	case "list.Combine":
		return list.Combine(cur, mkList(st.K, st.Ys))
	case "list.Combine.prefix":
		return list.Combine(mkList(st.K, st.Ys), cur)
	case "list.Concat":
		return list.Concat(st.N, cur)
	case "list.ZipWithIndex":
		return list.Map(list.ZipWithIndex(cur), func(t fp.Tuple2[int, int]) int { return t.I2 + st.F.Call(t.I1) })
	case "list.Zip.L":
		return list.Map(list.Zip(mkList(st.K, st.Ys), cur), func(t fp.Tuple2[int, int]) int { return t.I2 + 100*t.I1 })
	case "list.Zip.R":
		return list.Map(list.Zip(cur, mkList(st.K, st.Ys)), func(t fp.Tuple2[int, int]) int { return t.I1 + 100*t.I2 })
	case "list.Scan":
		return list.Scan(cur, st.N, scanStep)
	case "Take.viaIterator":
		return list.Collect(iterator.FromList(cur).Take(st.N))
	case "Drop.viaIterator":
		return list.Collect(iterator.FromList(cur).Drop(st.N))
	case "TakeWhile.viaIterator":
		return list.Collect(iterator.FromList(cur).TakeWhile(st.P.Call))
	case "DropWhile.viaIterator":
		return list.Collect(iterator.FromList(cur).DropWhile(st.P.Call))
	}
	panic("unknown list stage " + st.Op.Name)
}

func buildList(src fp.List[int], stages []stage) fp.List[int] {
	cur := src
	for _, st := range stages {
		cur = applyList(cur, st)
	}
	return cur
}

// ---------------------------------------------------------------------------
// finite sources

type finSource struct {
	Kind int // 0 slice, 1 range
	Xs   []int
	From int
	To   int
	K    int
}

func (s finSource) elems() []int {
	if s.Kind == 1 {
		out := []int{}
		for i := s.From; i < s.To; i++ {
			out = append(out, i)
		}
		return out
	}
	return s.Xs
}

func (s finSource) String() string {
	if s.Kind == 1 {
		return fmt.Sprintf("Range(%d,%d)", s.From, s.To)
	}
	return fmt.Sprintf("src(%v,k%d)", s.Xs, s.K)
}

func genFinSource(rt *rapid.T, nKinds int) finSource {
	if rapid.IntRange(0, 3).Draw(rt, "srckind") == 0 {
		from := rapid.IntRange(-3, 3).Draw(rt, "from")
		return finSource{Kind: 1, From: from, To: from + rapid.IntRange(0, 12).Draw(rt, "span")}
	}
	return finSource{Xs: kit.IntSlice(kit.Pick(12, 20)).Draw(rt, "xs"), K: rapid.IntRange(0, nKinds-1).Draw(rt, "k")}
}

func nontrivialPipe(stages []stage, srcLen int) bool {
	if len(stages) < 2 || srcLen < 3 {
		return false
	}
	for _, s := range stages {
		if s.Op.LookAhead {
			return true
		}
	}
	return false
}

func labelStages(rec *kit.Rec, stages []stage) {
	for _, s := range stages {
		rec.Label("op:" + s.Op.Name)
	}
	rec.Label(fmt.Sprintf("stages:%d", len(stages)))
}

const pipeRule = "pipeline = printable AST of 1..6 int-preserving stages drawn by rapid (table functions/predicates, thresholds, counts 0..6, embedded finite sequences of length 0..3, FlatMap rows of length 0..3), source = int slice (len 0..12, several construction kinds) or Range; interpreted by the library and by the harness' slice reference; closed by a drawn terminal route; non-trivial iff >= 2 stages of which >= 1 has look-ahead on a source of length >= 3; distinct by printed (pipeline, source, terminal). "

// pipeOpt: the pipeline sub-checks are few, so each gets four times the case budget.
var pipeOpt = kit.Opt{Weight: 4, HangIsViolation: true, HangAfter: 20 * time.Second}

func TestPipelines(t *testing.T) {
	kit.Check(t, "Iterator.pipeline/ref", pipeRule+"Iterator stages: Map, Filter, FilterNot, FilterMap, FlatMap, Take, Drop, TakeWhile, DropWhile, Concat (both sides), Appended, iterator.Concat, ZipWithIndex, Zip (both sides), Scan, TapEach (tap trace must be a prefix of the stream at that point). Terminals: ToSeq, drawn HasNext/Next pattern, list.Collect, iterator.ToList, iterator.Fold.", pipeOpt, func(rt *rapid.T, rec *kit.Rec) {
		src := genFinSource(rt, nIterKinds)
		stages := genPipeline(rt, iterOps, 6, false)
		term := rapid.IntRange(0, 4).Draw(rt, "term")
		pat := rapid.SliceOfN(rapid.IntRange(0, 3), 1, 3).Draw(rt, "pat")
		xs := src.elems()
		desc := fmt.Sprintf("%v | %s | term%d pat%v", src, showPipe(stages), term, pat)
		rec.Case(nontrivialPipe(stages, len(xs)), desc)
		labelStages(rec, stages)
		streams := refRun(stages, strm{xs, true}, false)
		want := streams[len(streams)-1].e
		var got []int
		taps := map[int]*[]int{}
		sig := "C12|Iterator.pipeline|ref"
		rec.Guard(rt, sig, func() {
			var s fp.Iterator[int]
			if src.Kind == 1 {
				s = iterator.Range(src.From, src.To)
			} else {
				s = mkIter(src.K, xs)
			}
			it := buildIter(s, stages, taps)
			switch term {
			case 0:
				got = it.ToSeq()
			case 1:
				got = consume(it, pat, len(want))
			case 2:
				got = walk(list.Collect(it))
			case 3:
				got = iterator.ToList(it).ToSeq()
			default:
				got = iterator.Fold(it, []int{}, func(acc []int, x int) []int { return append(acc, x) })
			}
		})
		if show(got) != show(want) {
			rec.Failf(rt, sig, "pipeline %s: library yields %v, slice reference %v", desc, got, want)
		}
		for i := range stages {
			tr, ok := taps[i]
			if !ok {
				continue
			}
			// downstream stages may stop early (Take...), so the tap sees a prefix
			if len(*tr) > len(streams[i].e) || show(*tr) != show(streams[i].e[:len(*tr)]) {
				rec.Failf(rt, "C12|Iterator.TapEach|ref", "pipeline %s: tap at stage %d saw %v, which is not a prefix of the stream there %v", desc, i, *tr, streams[i].e)
			}
		}
	})

	kit.Check(t, "List.pipeline/ref", pipeRule+"List stages: list.Map, FilterMap, FlatMap, Combine (both sides), Concat, ZipWithIndex, Zip (both sides), Scan, and Take/Drop/TakeWhile/DropWhile through iterator.FromList + list.Collect. Terminals: ToSeq, cell walk, iterator.FromList, list.Fold, list.FoldLeft, Foreach; the list is traversed twice.", pipeOpt, func(rt *rapid.T, rec *kit.Rec) {
		src := genFinSource(rt, nListKinds)
		stages := genPipeline(rt, listOps, 6, false)
		term := rapid.IntRange(0, 5).Draw(rt, "term")
		xs := src.elems()
		desc := fmt.Sprintf("%v | %s | term%d", src, showPipe(stages), term)
		rec.Case(nontrivialPipe(stages, len(xs)), desc)
		labelStages(rec, stages)
		want := refFinal(stages, strm{xs, true}, false).e
		var got, again []int
		sig := "C12|List.pipeline|ref"
		rec.Guard(rt, sig, func() {
			var s fp.List[int]
			if src.Kind == 1 {
				s = list.Range(src.From, src.To)
			} else {
				s = mkList(src.K, xs)
			}
			l := buildList(s, stages)
			switch term {
			case 0:
				got = l.ToSeq()
			case 1:
				got = walk(l)
			case 2:
				got = drain(iterator.FromList(l))
			case 3:
				got = list.Fold(l, []int{}, func(acc []int, x int) []int { return append(acc, x) })
			case 4:
				got = list.FoldLeft(l, []int{}, func(acc []int, x int) []int { return append(cp(acc), x) })
			default:
				got = []int{}
				l.Foreach(func(x int) { got = append(got, x) })
			}
			again = walk(l)
		})
		if show(got) != show(want) {
			rec.Failf(rt, sig, "pipeline %s: library yields %v, slice reference %v", desc, got, want)
		}
		if show(again) != show(want) {
			rec.Failf(rt, sig, "pipeline %s: second traversal yields %v, slice reference %v", desc, again, want)
		}
	})
}
