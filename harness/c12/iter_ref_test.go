package c12

import (
	"sort"
	"strconv"
	"testing"

	"github.com/csgura/fp"
	"github.com/csgura/fp/as"
	"github.com/csgura/fp/eq"
	"github.com/csgura/fp/hash"
	"github.com/csgura/fp/iterator"
	"github.com/csgura/fp/lazy"
	"github.com/csgura/fp/monoid"
	"github.com/csgura/fp/ord"
	"github.com/csgura/fp/seq"

	"verifharness/kit"
)

var intHash = hash.Number[int]()
var intOrd = ord.Given[int]()

func sepOf(n int) string { return []string{",", "", "ab"}[n%3] }

// TestIteratorMethods: one sub-check per method of fp.Iterator.
func TestIteratorMethods(t *testing.T) {
	comb(t, "Iterator.ToSeq", uXS|uIK, "ToSeq = xs.",
		func(e *env) any { return e.it(e.xs).ToSeq() },
		func(e *env) any { return e.xs })
	comb(t, "Iterator.Count", uXS|uIK, "Count = len(xs).",
		func(e *env) any { return e.it(e.xs).Count() },
		func(e *env) any { return len(e.xs) })
	comb(t, "Iterator.MakeString", uXS|uIK|uN, "MakeString(sep) = decimal elements joined by sep.",
		func(e *env) any { return e.it(e.xs).MakeString(sepOf(e.n)) },
		func(e *env) any { return rJoin(e.xs, sepOf(e.n)) })
	comb(t, "Iterator.NextOption", uXS|uIK, "repeated NextOption yields xs then None, and None again.",
		func(e *env) any {
			it := e.it(e.xs)
			out := []int{}
			for {
				e.fuel.Use()
				o := it.NextOption()
				if !o.IsDefined() {
					break
				}
				out = append(out, o.Get())
			}
			return show(out) + optS(it.NextOption())
		},
		func(e *env) any { return show(e.xs) + "None" })
	comb(t, "Iterator.IsEmpty", uXS|uIK, "IsEmpty/NonEmpty reflect len(xs)==0 and do not consume.",
		func(e *env) any {
			it := e.it(e.xs)
			a, b := it.IsEmpty(), it.NonEmpty()
			return show([]bool{a, b}) + show(it.ToSeq())
		},
		func(e *env) any { return show([]bool{len(e.xs) == 0, len(e.xs) != 0}) + show(e.xs) })
	comb(t, "Iterator.Find", uXS|uIK|uP, "Find(p) = first x with p(x); the iterator then continues right after it.",
		func(e *env) any {
			it := e.it(e.xs)
			o := it.Find(e.P)
			return optS(o) + show(it.ToSeq())
		},
		func(e *env) any {
			for i, x := range e.xs {
				if e.p.Call(x) {
					return "Some(" + strconv.Itoa(x) + ")" + show(e.xs[i+1:])
				}
			}
			return "None[]"
		})
	comb(t, "Iterator.Exists", uXS|uIK|uP, "Exists(p).",
		func(e *env) any { return e.it(e.xs).Exists(e.P) },
		func(e *env) any { return len(rFilter(e.xs, e.p.Call)) > 0 })
	comb(t, "Iterator.ForAll", uXS|uIK|uP, "ForAll(p).",
		func(e *env) any { return e.it(e.xs).ForAll(e.P) },
		func(e *env) any { return len(rFilter(e.xs, e.p.Call)) == len(e.xs) })
	comb(t, "Iterator.Foreach", uXS|uIK, "Foreach visits xs in order, each once.",
		func(e *env) any {
			tr := []int{}
			e.it(e.xs).Foreach(func(x int) { e.fuel.Use(); tr = append(tr, x) })
			return tr
		},
		func(e *env) any { return e.xs })
	comb(t, "Iterator.All", uXS|uIK|uN, "range over All() visits xs in order; break after n elements stops.",
		func(e *env) any {
			tr := []int{}
			for x := range e.it(e.xs).All() {
				e.fuel.Use()
				if len(tr) >= e.n {
					break
				}
				tr = append(tr, x)
			}
			return tr
		},
		func(e *env) any { return rTake(e.xs, e.n) })

	combIt(t, "Iterator.Take", uXS|uIK|uN, "Take(n) = xs[:min(n,len)].",
		func(e *env) fp.Iterator[int] { return e.it(e.xs).Take(e.n) },
		func(e *env) []int { return rTake(e.xs, e.n) })
	combIt(t, "Iterator.Drop", uXS|uIK|uN, "Drop(n) = xs[min(n,len):].",
		func(e *env) fp.Iterator[int] { return e.it(e.xs).Drop(e.n) },
		func(e *env) []int { return rDrop(e.xs, e.n) })
	combIt(t, "Iterator.TakeWhile", uXS|uIK|uP, "TakeWhile(p) = longest prefix satisfying p.",
		func(e *env) fp.Iterator[int] { return e.it(e.xs).TakeWhile(e.P) },
		func(e *env) []int { return rTakeWhile(e.xs, e.p.Call) })
	combIt(t, "Iterator.DropWhile", uXS|uIK|uP, "DropWhile(p) = xs without its longest prefix satisfying p.",
		func(e *env) fp.Iterator[int] { return e.it(e.xs).DropWhile(e.P) },
		func(e *env) []int { return rDropWhile(e.xs, e.p.Call) })
	combIt(t, "Iterator.Filter", uXS|uIK|uP, "Filter(p) keeps x with p(x), in order.",
		func(e *env) fp.Iterator[int] { return e.it(e.xs).Filter(e.P) },
		func(e *env) []int { return rFilter(e.xs, e.p.Call) })
	combIt(t, "Iterator.FilterNot", uXS|uIK|uP, "FilterNot(p) keeps x with !p(x), in order.",
		func(e *env) fp.Iterator[int] { return e.it(e.xs).FilterNot(e.P) },
		func(e *env) []int { return rFilter(e.xs, func(x int) bool { return !e.p.Call(x) }) })
	combIt(t, "Iterator.Map", uXS|uIK|uF, "Map(f).",
		func(e *env) fp.Iterator[int] { return e.it(e.xs).Map(e.F) },
		func(e *env) []int { return rMap(e.xs, e.f.Call) })
	combIt(t, "Iterator.FlatMap", uXS|uYS|uIK, "FlatMap(x -> iterator of 0..3 elements derived from a table).",
		func(e *env) fp.Iterator[int] {
			in := e.inner()
			return e.it(e.xs).FlatMap(func(x int) fp.Iterator[int] { e.fuel.Use(); return mkIter((x+e.ik)%nIterKinds, in.Call(x)) })
		},
		func(e *env) []int { return rFlatMap(e.xs, e.inner().Call) })
	combIt(t, "Iterator.Appended", uXS|uIK|uM, "Appended(m) = xs ++ [m].",
		func(e *env) fp.Iterator[int] { return e.it(e.xs).Appended(e.m) },
		func(e *env) []int { return rCat(e.xs, []int{e.m}) })
	combIt(t, "Iterator.Concat", uXS|uYS|uZS|uIK|uN, "Concat in the three association shapes (a++b, (a++b)++c, a++(b++c), (a++b)++(c++a')) = concatenation.",
		func(e *env) fp.Iterator[int] {
			a, b, c := e.it(e.xs), e.it(e.ys), e.it(e.zs)
			switch e.n % 4 {
			case 0:
				return a.Concat(b)
			case 1:
				return a.Concat(b).Concat(c)
			case 2:
				return a.Concat(b.Concat(c))
			default:
				return a.Concat(b).Concat(c.Concat(e.it(e.xs)))
			}
		},
		func(e *env) []int {
			switch e.n % 4 {
			case 0:
				return rCat(e.xs, e.ys)
			case 1, 2:
				return rCat(e.xs, e.ys, e.zs)
			default:
				return rCat(e.xs, e.ys, e.zs, e.xs)
			}
		})
	comb(t, "Iterator.TapEach", uXS|uIK, "TapEach yields xs and calls the tap once per element, in order.",
		func(e *env) any {
			tr := []int{}
			out := e.it(e.xs).TapEach(func(x int) { e.fuel.Use(); tr = append(tr, x) }).ToSeq()
			return show(out) + show(tr)
		},
		func(e *env) any { return show(e.xs) + show(e.xs) })
}

func pairsOf(xs []int) []fp.Tuple2[int, int] {
	ps := []fp.Tuple2[int, int]{}
	for i, x := range xs {
		ps = append(ps, as.Tuple(x, i))
	}
	return ps
}

func lastWins(xs []int) map[int]int {
	m := map[int]int{}
	for i, x := range xs {
		m[x] = i
	}
	return m
}

func fpMapContent(m fp.Map[int, int]) string {
	r := map[int]int{}
	n := 0
	it := m.Iterator()
	for it.HasNext() {
		k, v := it.Next().Unapply()
		r[k] = v
		n++
	}
	return show(r) + "#" + strconv.Itoa(n) + "/" + strconv.Itoa(m.Size())
}

func fpSetContent(s fp.Set[int]) string {
	r := []int{}
	it := s.Iterator()
	for it.HasNext() {
		r = append(r, it.Next())
	}
	sort.Ints(r)
	return show(r) + "/" + strconv.Itoa(s.Size())
}

func distinctSorted(xs []int) []int {
	m := map[int]bool{}
	for _, x := range xs {
		m[x] = true
	}
	r := []int{}
	for k := range m {
		r = append(r, k)
	}
	sort.Ints(r)
	return r
}

func goSetContent(s map[int]bool) []int {
	r := []int{}
	for k, v := range s {
		if v {
			r = append(r, k)
		}
	}
	sort.Ints(r)
	return r
}

func rFoldRight(xs []int, z int, f func(x, acc int) int) int {
	for i := len(xs) - 1; i >= 0; i-- {
		z = f(xs[i], z)
	}
	return z
}

func stepR(x, acc int) int { return acc*17 + x + 3 }

// schedule-driven consumption of two iterators (Duplicate/Span/Partition):
// sched bits choose which side is advanced next; afterwards both are drained.
func twoSided(l, r fp.Iterator[int], sched []int) string {
	lo, ro := []int{}, []int{}
	for _, s := range sched {
		if s%2 == 0 {
			if l.HasNext() {
				lo = append(lo, l.Next())
			}
		} else {
			if r.HasNext() {
				ro = append(ro, r.Next())
			}
		}
	}
	if len(sched)%2 == 0 {
		lo = append(lo, drain(l)...)
		ro = append(ro, drain(r)...)
	} else {
		ro = append(ro, drain(r)...)
		lo = append(lo, drain(l)...)
	}
	return show(lo) + show(ro)
}

// TestIteratorPkg: one sub-check per function of package iterator.
func TestIteratorPkg(t *testing.T) {
	comb(t, "iterator.Empty", 0, "Empty has no elements.",
		func(e *env) any { it := iterator.Empty[int](); return show(it.HasNext()) + show(it.ToSeq()) },
		func(e *env) any { return "false[]" })
	comb(t, "iterator.FromOption", uM, "FromOption(Some m / None) = [m] / [].",
		func(e *env) any {
			if e.m < 0 {
				return iterator.FromOption(fp.None[int]()).ToSeq()
			}
			return iterator.FromOption(fp.Some(e.m)).ToSeq()
		},
		func(e *env) any {
			if e.m < 0 {
				return []int{}
			}
			return []int{e.m}
		})
	comb(t, "iterator.FromPtr", uM, "FromPtr(nil / &m) = [] / [m].",
		func(e *env) any {
			if e.m < 0 {
				return iterator.FromPtr[int](nil).ToSeq()
			}
			v := e.m
			return iterator.FromPtr(&v).ToSeq()
		},
		func(e *env) any {
			if e.m < 0 {
				return []int{}
			}
			return []int{e.m}
		})
	combIt(t, "iterator.FromList", uXS|uLK, "FromList(list of xs) = xs, for every list representation.",
		func(e *env) fp.Iterator[int] { return iterator.FromList(e.li(e.xs)) },
		func(e *env) []int { return e.xs })
	combIt(t, "iterator.List", uXS|uLK, "List(list of xs) = xs.",
		func(e *env) fp.Iterator[int] { return iterator.List(e.li(e.xs)) },
		func(e *env) []int { return e.xs })
	combIt(t, "iterator.Of", uXS, "Of(xs...) = xs.",
		func(e *env) fp.Iterator[int] { return iterator.Of(cp(e.xs)...) },
		func(e *env) []int { return e.xs })
	combIt(t, "iterator.FromSeq", uXS, "FromSeq(xs) = xs.",
		func(e *env) fp.Iterator[int] { return iterator.FromSeq(cp(e.xs)) },
		func(e *env) []int { return e.xs })
	combIt(t, "iterator.FromSlice", uXS, "FromSlice(xs) = xs.",
		func(e *env) fp.Iterator[int] { return iterator.FromSlice(cp(e.xs)) },
		func(e *env) []int { return e.xs })
	combIt(t, "iterator.ReverseSeq", uXS, "ReverseSeq(xs) = reversed xs.",
		func(e *env) fp.Iterator[int] { return iterator.ReverseSeq(cp(e.xs)) },
		func(e *env) []int { return rRev(e.xs) })
	combIt(t, "iterator.ReverseSlice", uXS, "ReverseSlice(xs) = reversed xs.",
		func(e *env) fp.Iterator[int] { return iterator.ReverseSlice(cp(e.xs)) },
		func(e *env) []int { return rRev(e.xs) })
	comb(t, "iterator.FromMap", uXS, "FromMap/FromMapKey/FromMapValue enumerate the Go map exactly once per entry (compared as sorted multisets).",
		func(e *env) any {
			m := lastWins(e.xs)
			ps := []string{}
			it := iterator.FromMap(m)
			for it.HasNext() {
				k, v := it.Next().Unapply()
				ps = append(ps, strconv.Itoa(k)+":"+strconv.Itoa(v))
			}
			sort.Strings(ps)
			return show(ps) + show(rSorted(iterator.FromMapKey(m).ToSeq())) + show(rSorted(iterator.FromMapValue(m).ToSeq()))
		},
		func(e *env) any {
			m := lastWins(e.xs)
			ps, ks, vs := []string{}, []int{}, []int{}
			for k, v := range m {
				ps = append(ps, strconv.Itoa(k)+":"+strconv.Itoa(v))
				ks = append(ks, k)
				vs = append(vs, v)
			}
			sort.Strings(ps)
			sort.Ints(ks)
			sort.Ints(vs)
			return show(ps) + show(ks) + show(vs)
		})
	combIt(t, "iterator.Map", uXS|uIK|uF, "Map(it, f).",
		func(e *env) fp.Iterator[int] { return iterator.Map(e.it(e.xs), e.F) },
		func(e *env) []int { return rMap(e.xs, e.f.Call) })
	combIt(t, "iterator.Lift", uXS|uIK|uF, "Lift(f)(it) = Map.",
		func(e *env) fp.Iterator[int] { return iterator.Lift(e.F)(e.it(e.xs)) },
		func(e *env) []int { return rMap(e.xs, e.f.Call) })
	combIt(t, "iterator.FilterMap", uXS|uIK|uF|uP, "FilterMap(it, x -> Some(f x) if p x else None).",
		func(e *env) fp.Iterator[int] {
			return iterator.FilterMap(e.it(e.xs), func(x int) fp.Option[int] {
				if e.P(x) {
					return fp.Some(e.f.Call(x))
				}
				return fp.None[int]()
			})
		},
		func(e *env) []int { return rMap(rFilter(e.xs, e.p.Call), e.f.Call) })
	combIt(t, "iterator.FlatMap", uXS|uYS|uIK, "FlatMap(it, x -> iterator of 0..3 elements).",
		func(e *env) fp.Iterator[int] {
			in := e.inner()
			return iterator.FlatMap(e.it(e.xs), func(x int) fp.Iterator[int] { e.fuel.Use(); return mkIter((x+e.ik)%nIterKinds, in.Call(x)) })
		},
		func(e *env) []int { return rFlatMap(e.xs, e.inner().Call) })
	combIt(t, "iterator.Flatten", uXS|uYS|uIK, "Flatten(iterator of iterators) = concatenation.",
		func(e *env) fp.Iterator[int] {
			in := e.inner()
			return iterator.Flatten(iterator.Map(e.it(e.xs), func(x int) fp.Iterator[int] { e.fuel.Use(); return mkIter(e.ik, in.Call(x)) }))
		},
		func(e *env) []int { return rFlatMap(e.xs, e.inner().Call) })
	combIt(t, "iterator.Compose", uXS|uYS|uIK|uM, "Compose(f1,f2)(m) = flatMap f2 over f1(m); ComposePure(f)(m) = [f m].",
		func(e *env) fp.Iterator[int] {
			in := e.inner()
			f1 := func(a int) fp.Iterator[int] { e.fuel.Use(); return e.it(rMap(e.xs, func(x int) int { return x + a })) }
			f2 := func(x int) fp.Iterator[int] { e.fuel.Use(); return iterator.FromSeq(in.Call(x)) }
			return iterator.Compose(f1, f2)(e.m).Concat(iterator.ComposePure(func(a int) int { return a * 2 })(e.m))
		},
		func(e *env) []int {
			return rCat(rFlatMap(rMap(e.xs, func(x int) int { return x + e.m }), e.inner().Call), []int{e.m * 2})
		})
	combIt(t, "iterator.Concat", uXS|uIK|uM, "Concat(head m, tail) = [m] ++ xs.",
		func(e *env) fp.Iterator[int] { return iterator.Concat(e.m, e.it(e.xs)) },
		func(e *env) []int { return rCat([]int{e.m}, e.xs) })

	comb(t, "iterator.ToMap", uXS|uIK, "ToMap of pairs (x_i, i): later pair wins, size = number of distinct keys.",
		func(e *env) any { return fpMapContent(iterator.ToMap(iterator.FromSeq(pairsOf(e.xs)), intHash)) },
		func(e *env) any {
			m := lastWins(e.xs)
			return show(m) + "#" + strconv.Itoa(len(m)) + "/" + strconv.Itoa(len(m))
		})
	comb(t, "iterator.ToGoMap", uXS, "ToGoMap of pairs (x_i, i): later pair wins.",
		func(e *env) any { return iterator.ToGoMap(iterator.FromSeq(pairsOf(e.xs))) },
		func(e *env) any { return lastWins(e.xs) })
	comb(t, "iterator.ToSlice", uXS|uIK, "ToSlice = xs.",
		func(e *env) any { return iterator.ToSlice(e.it(e.xs)) },
		func(e *env) any { return e.xs })
	comb(t, "iterator.ToSeq", uXS|uIK, "ToSeq = xs.",
		func(e *env) any { return []int(iterator.ToSeq(e.it(e.xs))) },
		func(e *env) any { return e.xs })
	comb(t, "iterator.ToSet", uXS|uIK, "ToSet = set of distinct xs.",
		func(e *env) any { return fpSetContent(iterator.ToSet(e.it(e.xs), intHash)) },
		func(e *env) any { d := distinctSorted(e.xs); return show(d) + "/" + strconv.Itoa(len(d)) })
	comb(t, "iterator.ToGoSet", uXS|uIK, "ToGoSet = set of distinct xs.",
		func(e *env) any { return goSetContent(iterator.ToGoSet(e.it(e.xs))) },
		func(e *env) any { return distinctSorted(e.xs) })
	combLi(t, "iterator.ToList", uXS|uIK, "ToList(it) = xs, traversable twice.",
		func(e *env) fp.List[int] { return iterator.ToList(e.it(e.xs)) },
		func(e *env) []int { return e.xs })

	comb(t, "iterator.Zip", uXS|uYS|uIK, "Zip = pairs up to the shorter length.",
		func(e *env) any {
			out := []int{}
			for _, p := range drain(iterator.Zip(e.it(e.xs), e.it(e.ys))) {
				out = append(out, p.I1, p.I2)
			}
			return out
		},
		func(e *env) any {
			out := []int{}
			for i := 0; i < len(e.xs) && i < len(e.ys); i++ {
				out = append(out, e.xs[i], e.ys[i])
			}
			return out
		})
	comb(t, "iterator.Zip3", uXS|uYS|uZS|uIK, "Zip3 = triples up to the shortest length.",
		func(e *env) any {
			out := []int{}
			for _, p := range drain(iterator.Zip3(e.it(e.xs), e.it(e.ys), e.it(e.zs))) {
				out = append(out, p.I1, p.I2, p.I3)
			}
			return out
		},
		func(e *env) any {
			out := []int{}
			for i := 0; i < len(e.xs) && i < len(e.ys) && i < len(e.zs); i++ {
				out = append(out, e.xs[i], e.ys[i], e.zs[i])
			}
			return out
		})
	comb(t, "iterator.ZipWithIndex", uXS|uIK, "ZipWithIndex = (i, x_i).",
		func(e *env) any {
			out := []int{}
			for _, p := range drain(iterator.ZipWithIndex(e.it(e.xs))) {
				out = append(out, p.I1, p.I2)
			}
			return out
		},
		func(e *env) any {
			out := []int{}
			for i, x := range e.xs {
				out = append(out, i, x)
			}
			return out
		})

	comb(t, "iterator.Reduce", uXS|uIK, "Reduce over the String monoid (non-commutative) = left-to-right concatenation.",
		func(e *env) any { return iterator.Reduce(iterator.Map(e.it(e.xs), strconv.Itoa), monoid.String) },
		func(e *env) any { return rJoin(e.xs, "") })
	comb(t, "iterator.Fold", uXS|uIK|uM, "Fold with an order-sensitive step = left fold.",
		func(e *env) any {
			return iterator.Fold(e.it(e.xs), e.m, func(a, x int) int { e.fuel.Use(); return step(a, x) })
		},
		func(e *env) any {
			a := e.m
			for _, x := range e.xs {
				a = step(a, x)
			}
			return a
		})
	comb(t, "iterator.FoldTry", uXS|uIK|uM|uP, "FoldTry: left fold that stops with the first Failure (step fails where !p(x)).",
		func(e *env) any {
			return tryS(iterator.FoldTry(e.it(e.xs), e.m, func(a, x int) fp.Try[int] {
				if e.P(x) {
					return fp.Success(step(a, x))
				}
				return fp.Failure[int](errOf(x))
			}))
		},
		func(e *env) any { return refFoldTry(e) })
	comb(t, "iterator.FoldOption", uXS|uIK|uM|uP, "FoldOption: left fold that stops with the first None (step is None where !p(x)).",
		func(e *env) any {
			return optS(iterator.FoldOption(e.it(e.xs), e.m, func(a, x int) fp.Option[int] {
				if e.P(x) {
					return fp.Some(step(a, x))
				}
				return fp.None[int]()
			}))
		},
		func(e *env) any { return refFoldOption(e) })
	comb(t, "iterator.FoldError", uXS|uIK|uP, "FoldError: visits elements in order until the first error (error where !p(x)); result = that error, visited prefix compared too.",
		func(e *env) any {
			tr := []int{}
			err := iterator.FoldError(e.it(e.xs), func(x int) error {
				tr = append(tr, x)
				if e.P(x) {
					return nil
				}
				return errOf(x)
			})
			return kit.ErrName(err) + show(tr)
		},
		func(e *env) any { return refFoldError(e) })
	comb(t, "iterator.FoldRight", uXS|uIK|uM|uP, "FoldRight with lazy.Eval: strict right fold, and a variant that ignores the rest where !p(x).",
		func(e *env) any {
			strict := iterator.FoldRight(e.it(e.xs), e.m, func(x int, rest lazy.Eval[int]) lazy.Eval[int] {
				e.fuel.Use()
				return rest.Map(func(acc int) int { return stepR(x, acc) })
			}).Get()
			short := iterator.FoldRight(e.it(e.xs), e.m, func(x int, rest lazy.Eval[int]) lazy.Eval[int] {
				if !e.P(x) {
					return lazy.Done(x)
				}
				return rest.Map(func(acc int) int { return stepR(x, acc) })
			}).Get()
			return []int{strict, short}
		},
		func(e *env) any { return refFoldRight(e) })
	comb(t, "iterator.GroupBy", uXS|uIK|uF, "GroupBy(f): key -> elements in original order.",
		func(e *env) any {
			r := map[int][]int{}
			for k, v := range iterator.GroupBy(e.it(e.xs), e.F) {
				r[k] = []int(v)
			}
			return r
		},
		func(e *env) any { return refGroupBy(e) })
	combIt(t, "iterator.Scan", uXS|uIK|uM, "Scan = [z, z+x0, ...] with an order-sensitive step (len+1 elements).",
		func(e *env) fp.Iterator[int] {
			return iterator.Scan(e.it(e.xs), e.m, func(a, x int) int { e.fuel.Use(); return step(a, x) })
		},
		func(e *env) []int { return rScan(e.xs, e.m, step) })
	combIt(t, "iterator.Generate", uN|uM, "Generate(counter).Take(n) = m, m+1, ..., m+n-1.",
		func(e *env) fp.Iterator[int] {
			c := e.m
			return iterator.Generate(func() int { e.fuel.Use(); v := c; c++; return v }).Take(e.n)
		},
		func(e *env) []int {
			out := []int{}
			for i := 0; i < e.n; i++ {
				out = append(out, e.m+i)
			}
			return out
		})
	combIt(t, "iterator.Range", uN|uM, "Range(m, n-3) = m..n-4 (empty if from >= to).",
		func(e *env) fp.Iterator[int] { return iterator.Range(e.m, e.n-3) },
		func(e *env) []int {
			out := []int{}
			for i := e.m; i < e.n-3; i++ {
				out = append(out, i)
			}
			return out
		})
	combIt(t, "iterator.RangeClosed", uN|uM, "RangeClosed(m, n-3) = m..n-3.",
		func(e *env) fp.Iterator[int] { return iterator.RangeClosed(e.m, e.n-3) },
		func(e *env) []int {
			out := []int{}
			for i := e.m; i <= e.n-3; i++ {
				out = append(out, i)
			}
			return out
		})
	comb(t, "iterator.Duplicate", uXS|uZS|uIK, "Duplicate: both copies yield xs under a drawn interleaving of reads.",
		func(e *env) any { l, r := iterator.Duplicate(e.it(e.xs)); return twoSided(l, r, e.zs) },
		func(e *env) any { return show(e.xs) + show(e.xs) })
	comb(t, "iterator.Span", uXS|uZS|uIK|uP, "Span(p) = (takeWhile p, dropWhile p) under a drawn interleaving of reads.",
		func(e *env) any { l, r := iterator.Span(e.it(e.xs), e.P); return twoSided(l, r, e.zs) },
		func(e *env) any { return show(rTakeWhile(e.xs, e.p.Call)) + show(rDropWhile(e.xs, e.p.Call)) })
	comb(t, "iterator.Partition", uXS|uZS|uIK|uP, "Partition(p) = (filter p, filter !p) under a drawn interleaving of reads.",
		func(e *env) any { l, r := iterator.Partition(e.it(e.xs), e.P); return twoSided(l, r, e.zs) },
		func(e *env) any {
			return show(rFilter(e.xs, e.p.Call)) + show(rFilter(e.xs, func(x int) bool { return !e.p.Call(x) }))
		})
	comb(t, "iterator.Sort", uXS|uIK, "Sort = ascending permutation of xs.",
		func(e *env) any { return []int(iterator.Sort(e.it(e.xs), intOrd)) },
		func(e *env) any { return rSorted(e.xs) })
	comb(t, "iterator.Min", uXS|uIK, "Min = smallest element or None.",
		func(e *env) any { return optS(iterator.Min(e.it(e.xs), intOrd)) },
		func(e *env) any { return refMinMax(e.xs, false) })
	comb(t, "iterator.Max", uXS|uIK, "Max = largest element or None.",
		func(e *env) any { return optS(iterator.Max(e.it(e.xs), intOrd)) },
		func(e *env) any { return refMinMax(e.xs, true) })
	// ties: elements that compare equal under the Ord but are distinguishable. Which of them Min/Max returns is
	// part of "the same elements as the eager Seq computation", so the reference here is seq.Min/seq.Max itself.
	comb(t, "iterator.Min/tied-keys", uXS|uIK, "Records (key = x mod 3, position) ordered by key only: iterator.Min returns the same record as seq.Min over the same records.",
		func(e *env) any { return show(iterator.Min(iterator.Map(e.it(positions(e.xs)), recAt(e.xs)), keyOrd)) },
		func(e *env) any { return show(seq.Min(records(e.xs), keyOrd)) })
	comb(t, "iterator.Max/tied-keys", uXS|uIK, "Records (key = x mod 3, position) ordered by key only: iterator.Max returns the same record as seq.Max over the same records.",
		func(e *env) any { return show(iterator.Max(iterator.Map(e.it(positions(e.xs)), recAt(e.xs)), keyOrd)) },
		func(e *env) any { return show(seq.Max(records(e.xs), keyOrd)) })
}

// keyed is a record ordered by Key only; Pos tells tied records apart.
type keyed struct{ Key, Pos int }

var keyOrd = ord.New(eq.New(func(a, b keyed) bool { return a.Key == b.Key }), func(a, b keyed) bool { return a.Key < b.Key })

func positions(xs []int) []int {
	r := make([]int, len(xs))
	for i := range r {
		r[i] = i
	}
	return r
}

func recAt(xs []int) func(int) keyed {
	return func(i int) keyed { return keyed{Key: ((xs[i] % 3) + 3) % 3, Pos: i} }
}

func records(xs []int) fp.Seq[keyed] {
	r := fp.Seq[keyed]{}
	for i := range xs {
		r = append(r, recAt(xs)(i))
	}
	return r
}

// ---- references shared with the list sub-checks ---------------------------------

func refFoldTry(e *env) string {
	a := e.m
	for _, x := range e.xs {
		if !e.p.Call(x) {
			return "Failure(" + kit.ErrName(errOf(x)) + ")"
		}
		a = step(a, x)
	}
	return "Success(" + strconv.Itoa(a) + ")"
}

func refFoldOption(e *env) string {
	a := e.m
	for _, x := range e.xs {
		if !e.p.Call(x) {
			return "None"
		}
		a = step(a, x)
	}
	return "Some(" + strconv.Itoa(a) + ")"
}

func refFoldError(e *env) string {
	tr := []int{}
	for _, x := range e.xs {
		tr = append(tr, x)
		if !e.p.Call(x) {
			return kit.ErrName(errOf(x)) + show(tr)
		}
	}
	return "nil" + show(tr)
}

func refFoldRight(e *env) []int {
	strict := rFoldRight(e.xs, e.m, stepR)
	short := e.m
	for i := len(e.xs) - 1; i >= 0; i-- {
		if !e.p.Call(e.xs[i]) {
			short = e.xs[i]
		} else {
			short = stepR(e.xs[i], short)
		}
	}
	return []int{strict, short}
}

func refGroupBy(e *env) map[int][]int {
	r := map[int][]int{}
	for _, x := range e.xs {
		k := e.f.Call(x)
		r[k] = append(r[k], x)
	}
	return r
}

func refMinMax(xs []int, max bool) string {
	if len(xs) == 0 {
		return "None"
	}
	s := rSorted(xs)
	if max {
		return "Some(" + strconv.Itoa(s[len(s)-1]) + ")"
	}
	return "Some(" + strconv.Itoa(s[0]) + ")"
}
