// Package c12 checks property C12: Iterator and lazy List combinators agree with
// an eager slice reference, terminate on finite inputs, pull from unbounded
// sources only what the demand requires (plus a constant look-ahead), and a
// memoised List evaluates every cell at most once.
package c12

import (
	"fmt"
	"sort"
	"strconv"
	"strings"
	"testing"
	"time"

	"github.com/csgura/fp"
	"github.com/csgura/fp/iterator"
	"github.com/csgura/fp/list"
	"pgregory.net/rapid"

	"verifharness/kit"
)

func TestMain(m *testing.M) { kit.Main(m) }

// termOpt: the property demands termination on every finite input (and on
// unbounded generators for lazy combinators), so a case that never returns is
// a violation, not an inconclusive run.
var termOpt = kit.Opt{HangIsViolation: true, HangAfter: 20 * time.Second}

const drainLimit = 200000

func cp(xs []int) []int {
	r := make([]int, len(xs))
	copy(r, xs)
	return r
}

// show is the canonical printer used to compare a library result with the
// reference (nil and empty slices print alike; maps print with sorted keys).
func show(v any) string { return fmt.Sprintf("%v", v) }

func optS(o fp.Option[int]) string {
	if o.IsDefined() {
		return "Some(" + strconv.Itoa(o.Get()) + ")"
	}
	return "None"
}

func tryS(t fp.Try[int]) string {
	if t.IsSuccess() {
		return "Success(" + strconv.Itoa(t.Get()) + ")"
	}
	return "Failure(" + kit.ErrName(t.Failed().Get()) + ")"
}

func absI(x int) int {
	if x < 0 {
		return -x
	}
	return x
}

func errOf(x int) error { return kit.Errs[absI(x)%len(kit.Errs)] }

// step is an order-sensitive accumulator step (wraps on overflow, deterministically).
func step(acc, x int) int { return acc*31 + x + 1 }

// drain collects an iterator with a hard limit so that an iterator that never
// ends becomes a FuelExhausted panic (-> "|nonterm") instead of memory exhaustion.
func drain[T any](it fp.Iterator[T]) []T {
	out := []T{}
	for it.HasNext() {
		if len(out) > drainLimit {
			panic(kit.FuelExhausted{What: "iterator still has elements after " + strconv.Itoa(drainLimit)})
		}
		out = append(out, it.Next())
	}
	return out
}

// walk reads a list cell by cell through NonEmpty/Head/Tail only.
func walk[T any](l fp.List[T]) []T {
	out := []T{}
	for l.NonEmpty() {
		if len(out) > drainLimit {
			panic(kit.FuelExhausted{What: "list still has cells after " + strconv.Itoa(drainLimit)})
		}
		out = append(out, l.Head())
		l = l.Tail()
	}
	return out
}

// tailFirst reads the first n cells of l by following Tail() n times before any head or emptiness is
// asked for, then the heads from the last cell to the first. n is the length the reference predicts, so
// every visited cell must exist; a non-empty remainder is reported as an extra -999999 element.
func tailFirst[T any](l fp.List[T], n int) []T {
	cells := []fp.List[T]{l}
	for i := 0; i < n; i++ {
		cells = append(cells, cells[i].Tail())
	}
	out := make([]T, n)
	for i := n - 1; i >= 0; i-- {
		out[i] = cells[i].Head()
	}
	if cells[n].NonEmpty() {
		var extra any = -999999
		if v, ok := extra.(T); ok {
			out = append(out, v)
		}
	}
	return out
}

// consume drains an iterator with a drawn demand pattern: before element j it
// calls HasNext pat[j mod len] times (0 = call Next directly, used only while
// the reference says an element exists). After the end HasNext is asked again.
// Disagreeing HasNext answers or an element after the end are encoded in the
// output so that they show up as a mismatch with the reference.
func consume(it fp.Iterator[int], pat []int, wantLen int) []int {
	out := []int{}
	for j := 0; ; j++ {
		if j > drainLimit {
			panic(kit.FuelExhausted{What: "iterator still has elements after " + strconv.Itoa(drainLimit)})
		}
		h := pat[j%len(pat)]
		if h == 0 && j < wantLen {
			out = append(out, it.Next())
			continue
		}
		if h == 0 {
			h = 1
		}
		first := it.HasNext()
		for c := 1; c < h; c++ {
			if it.HasNext() != first {
				out = append(out, -777777) // HasNext not idempotent
				return out
			}
		}
		if !first {
			break
		}
		out = append(out, it.Next())
	}
	if it.HasNext() {
		out = append(out, -888888) // HasNext true again after having answered false
	}
	return out
}

// ---------------------------------------------------------------------------
// drawn environment shared by the per-combinator sub-checks

type use uint

const (
	uXS use = 1 << iota
	uYS
	uZS
	uF
	uG
	uP
	uQ
	uN
	uM
	uIK  // iterator construction kind
	uLK  // list construction kind
	uPat // demand pattern for a returned iterator
)

type env struct {
	xs, ys, zs []int
	f, g       kit.IntFn
	p, q       kit.Pred
	n, m       int
	ik, lk     int
	pat        []int
	fuel       *kit.Fuel
	desc       string
}

func maxLen() int { return kit.Pick(8, 14) }

func drawEnv(rt *rapid.T, u use) *env {
	e := &env{pat: []int{1}}
	var sb strings.Builder
	if u&uXS != 0 {
		e.xs = kit.IntSliceWide(maxLen()).Draw(rt, "xs")
		fmt.Fprintf(&sb, "xs=%v ", e.xs)
	}
	if u&uYS != 0 {
		e.ys = kit.IntSlice(5).Draw(rt, "ys")
		fmt.Fprintf(&sb, "ys=%v ", e.ys)
	}
	if u&uZS != 0 {
		e.zs = kit.IntSlice(4).Draw(rt, "zs")
		fmt.Fprintf(&sb, "zs=%v ", e.zs)
	}
	if u&uF != 0 {
		e.f = kit.IntFnGen().Draw(rt, "f")
		fmt.Fprintf(&sb, "f=%v ", e.f)
	}
	if u&uG != 0 {
		e.g = kit.IntFnGen().Draw(rt, "g")
		fmt.Fprintf(&sb, "g=%v ", e.g)
	}
	if u&uP != 0 {
		e.p = kit.PredGen().Draw(rt, "p")
		fmt.Fprintf(&sb, "p=%v ", e.p)
	}
	if u&uQ != 0 {
		e.q = kit.PredGen().Draw(rt, "q")
		fmt.Fprintf(&sb, "q=%v ", e.q)
	}
	if u&uN != 0 {
		e.n = rapid.IntRange(0, maxLen()+2).Draw(rt, "n")
		fmt.Fprintf(&sb, "n=%d ", e.n)
	}
	if u&uM != 0 {
		e.m = rapid.IntRange(-3, 8).Draw(rt, "m")
		fmt.Fprintf(&sb, "m=%d ", e.m)
	}
	if u&uIK != 0 {
		e.ik = rapid.IntRange(0, nIterKinds-1).Draw(rt, "ik")
		fmt.Fprintf(&sb, "ik=%d ", e.ik)
	}
	if u&uLK != 0 {
		e.lk = rapid.IntRange(0, nListKinds-1).Draw(rt, "lk")
		fmt.Fprintf(&sb, "lk=%d ", e.lk)
	}
	if u&uPat != 0 {
		e.pat = rapid.SliceOfN(rapid.IntRange(0, 3), 1, 3).Draw(rt, "pat")
		fmt.Fprintf(&sb, "pat=%v ", e.pat)
	}
	e.fuel = kit.NewFuel(64*(len(e.xs)+len(e.ys)+len(e.zs)+e.n+absI(e.m)+1), "callback budget 64*(n+1)")
	e.desc = sb.String()
	return e
}

func (e *env) size() int { return len(e.xs) + len(e.ys) + len(e.zs) }

// fuelled callbacks handed to the library
func (e *env) F(x int) int  { e.fuel.Use(); return e.f.Call(x) }
func (e *env) G(x int) int  { e.fuel.Use(); return e.g.Call(x) }
func (e *env) P(x int) bool { e.fuel.Use(); return e.p.Call(x) }
func (e *env) Q(x int) bool { e.fuel.Use(); return e.q.Call(x) }

const nIterKinds = 5
const nListKinds = 5

// mkIter builds an iterator over a private copy of xs in one of several ways.
func mkIter(kind int, xs []int) fp.Iterator[int] {
	xs = cp(xs)
	switch kind {
	case 0:
		return iterator.FromSeq(xs)
	case 1:
		return iterator.Of(xs...)
	case 2:
		return iterator.FromList(mkList(2, xs))
	case 3:
		h := len(xs) / 2
		return iterator.FromSeq(xs[:h]).Concat(iterator.FromSeq(xs[h:]))
	default:
		return iterator.Map(iterator.Range(0, len(xs)), func(i int) int { return xs[i] })
	}
}

// mkList builds a list over a private copy of xs: slice-backed, cons cells,
// lazily generated, collected from an iterator, hand-made MakeList cells.
func mkList(kind int, xs []int) fp.List[int] {
	xs = cp(xs)
	switch kind {
	case 0:
		return list.Of(xs...)
	case 1:
		var l fp.List[int] = list.Empty[int]()
		for i := len(xs) - 1; i >= 0; i-- {
			l = list.Apply(xs[i], l)
		}
		return l
	case 2:
		return list.Generate(func(i int) fp.Option[int] {
			if i < len(xs) {
				return fp.Some(xs[i])
			}
			return fp.None[int]()
		})
	case 3:
		return list.Collect(iterator.FromSeq(xs))
	default:
		return handList(xs, 0)
	}
}

func handList(xs []int, i int) fp.List[int] {
	return fp.MakeList(func() fp.Option[int] {
		if i < len(xs) {
			return fp.Some(xs[i])
		}
		return fp.None[int]()
	}, func() fp.List[int] {
		if i < len(xs) {
			return handList(xs, i+1)
		}
		return list.Empty[int]()
	})
}

func (e *env) it(xs []int) fp.Iterator[int] { return mkIter(e.ik, xs) }
func (e *env) li(xs []int) fp.List[int]     { return mkList(e.lk, xs) }

const ruleBase = "inputs drawn by rapid: int slices xs (len 0..8 quick / 0..14 thorough, in a quarter of the cases 9..40 or 41..300 - nothing in the code bounds the length; values -3..8, empty and singleton included), table functions/predicates over x mod k, small counts, construction kind of the source; every callback carries a fuel of 64*(n+1) calls; oracle: plain Go slice loop written in the harness; non-trivial iff total input length >= 2; distinct by printed inputs. "

// comb runs one per-function sub-check: lib computes with the library (inside
// Guard, callbacks fuelled), ref computes on plain slices.
func comb(t *testing.T, fn string, u use, what string, lib func(e *env) any, ref func(e *env) any) {
	t.Helper()
	sig := "C12|" + fn + "|ref"
	kit.Check(t, fn+"/ref", ruleBase+what, termOpt, func(rt *rapid.T, rec *kit.Rec) {
		e := drawEnv(rt, u)
		rec.Case(e.size() >= 2 || (u&(uXS|uYS|uZS) == 0), e.desc)
		var got any
		rec.Guard(rt, sig, func() { got = lib(e) })
		want := ref(e)
		if gs, ws := show(got), show(want); gs != ws {
			rec.Failf(rt, sig, "%s: library = %s, slice reference = %s; inputs: %s", fn, gs, ws, e.desc)
		}
	})
}

// combIt is comb for functions returning an iterator; the iterator is consumed
// with a drawn HasNext/Next pattern.
func combIt(t *testing.T, fn string, u use, what string, lib func(e *env) fp.Iterator[int], ref func(e *env) []int) {
	t.Helper()
	sig := "C12|" + fn + "|ref"
	kit.Check(t, fn+"/ref", ruleBase+"The returned iterator is consumed with a drawn pattern (0..3 HasNext calls before each Next; 0 only while the reference has an element). "+what, termOpt, func(rt *rapid.T, rec *kit.Rec) {
		e := drawEnv(rt, u|uPat)
		rec.Case(e.size() >= 2 || (u&(uXS|uYS|uZS) == 0), e.desc)
		want := ref(e)
		var got []int
		rec.Guard(rt, sig, func() { got = consume(lib(e), e.pat, len(want)) })
		if gs, ws := show(got), show(want); gs != ws {
			rec.Failf(rt, sig, "%s: library yields %s, slice reference %s (-777777: HasNext answers differ, -888888: HasNext true after false); inputs: %s", fn, gs, ws, e.desc)
		}
	})
}

// combLi is comb for functions returning a list; the list is read cell by cell.
func combLi(t *testing.T, fn string, u use, what string, lib func(e *env) fp.List[int], ref func(e *env) []int) {
	t.Helper()
	sig := "C12|" + fn + "|ref"
	kit.Check(t, fn+"/ref", ruleBase+"The returned list is read with a drawn demand pattern (NonEmpty/Head/Tail walk, or Tail() followed as far as the reference reaches before any head is asked for and the heads then read backwards) and again through ToSeq. "+what, termOpt, func(rt *rapid.T, rec *kit.Rec) {
		e := drawEnv(rt, u)
		rec.Case(e.size() >= 2 || (u&(uXS|uYS|uZS) == 0), e.desc)
		want := ref(e)
		// demand pattern of the first reading: 0 = NonEmpty/Head/Tail walk; 1 = Tail first: follow Tail()
		// as many times as the reference has elements WITHOUT asking any cell for its head or emptiness,
		// then read the heads, the last cell first, and only then ask the final cell whether it is empty
		mode := rapid.IntRange(0, 2).Draw(rt, "listDemand")
		var got, got2 []int
		rec.Guard(rt, sig, func() {
			l := lib(e)
			if mode == 1 {
				got = tailFirst(l, len(want))
			} else {
				got = walk(l)
			}
			got2 = l.ToSeq()
		})
		if gs, ws := show(got), show(want); gs != ws {
			rec.Failf(rt, sig, "%s: library list (demand pattern %d) = %s, slice reference %s (-999999: cells left after the reference's last element); inputs: %s", fn, mode, gs, ws, e.desc)
		}
		if gs, ws := show(got2), show(want); gs != ws {
			rec.Failf(rt, sig, "%s: second traversal (ToSeq) = %s, slice reference %s; inputs: %s", fn, gs, ws, e.desc)
		}
	})
}

// ---------------------------------------------------------------------------
// small slice helpers used by the references

func rMap(xs []int, f func(int) int) []int {
	out := []int{}
	for _, x := range xs {
		out = append(out, f(x))
	}
	return out
}

func rFilter(xs []int, p func(int) bool) []int {
	out := []int{}
	for _, x := range xs {
		if p(x) {
			out = append(out, x)
		}
	}
	return out
}

func rTakeWhile(xs []int, p func(int) bool) []int {
	out := []int{}
	for _, x := range xs {
		if !p(x) {
			break
		}
		out = append(out, x)
	}
	return out
}

func rDropWhile(xs []int, p func(int) bool) []int {
	i := 0
	for i < len(xs) && p(xs[i]) {
		i++
	}
	return cp(xs[i:])
}

func rTake(xs []int, n int) []int {
	if n > len(xs) {
		n = len(xs)
	}
	if n < 0 {
		n = 0
	}
	return cp(xs[:n])
}

func rDrop(xs []int, n int) []int {
	if n > len(xs) {
		n = len(xs)
	}
	if n < 0 {
		n = 0
	}
	return cp(xs[n:])
}

func rCat(parts ...[]int) []int {
	out := []int{}
	for _, p := range parts {
		out = append(out, p...)
	}
	return out
}

func rRev(xs []int) []int {
	out := []int{}
	for i := len(xs) - 1; i >= 0; i-- {
		out = append(out, xs[i])
	}
	return out
}

func rScan(xs []int, z int, f func(acc, x int) int) []int {
	out := []int{z}
	for _, x := range xs {
		z = f(z, x)
		out = append(out, z)
	}
	return out
}

func rSorted(xs []int) []int {
	out := cp(xs)
	sort.Ints(out)
	return out
}

func rJoin(xs []int, sep string) string {
	ss := []string{}
	for _, x := range xs {
		ss = append(ss, strconv.Itoa(x))
	}
	return strings.Join(ss, sep)
}

// inner is the table-driven element expansion used for FlatMap: x maps to
// [x+c | c in tab[x mod k]].
type innerTab [][]int

func (it innerTab) Call(x int) []int {
	k := len(it)
	row := it[((x%k)+k)%k]
	out := []int{}
	for _, c := range row {
		out = append(out, x+c)
	}
	return out
}

func innerGen() *rapid.Generator[innerTab] {
	return rapid.Custom(func(t *rapid.T) innerTab {
		return innerTab(rapid.SliceOfN(rapid.SliceOfN(rapid.IntRange(-2, 3), 0, 3), 1, 3).Draw(t, "inner"))
	})
}

func (it innerTab) String() string {
	return fmt.Sprintf("λx.[x+c|c<-%v[x mod %d]]", [][]int(it), len(it))
}

func rFlatMap(xs []int, f func(int) []int) []int {
	out := []int{}
	for _, x := range xs {
		out = append(out, f(x)...)
	}
	return out
}

// innerFromEnv derives a FlatMap expansion from the drawn ys (row lengths 0..3).
func (e *env) inner() innerTab {
	rows := innerTab{{}, {0}, {1, -1}}
	if len(e.ys) > 0 {
		rows = innerTab{}
		for i, y := range e.ys {
			row := []int{}
			for c := 0; c < absI(y)%4; c++ {
				row = append(row, c+i)
			}
			rows = append(rows, row)
		}
	}
	return rows
}
