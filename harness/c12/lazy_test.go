package c12

import (
	"fmt"
	"sort"
	"strings"
	"testing"

	"github.com/csgura/fp"
	"github.com/csgura/fp/iterator"
	"github.com/csgura/fp/list"
	"pgregory.net/rapid"

	"verifharness/kit"
)

const (
	prefixLen = 256  // reference prefix of the unbounded source
	srcFuel   = 4096 // pulls after which the unbounded source gives up (-> |nonterm)
	kMax      = 12   // largest demand
)

func countingPrefix(start int) []int {
	out := make([]int, prefixLen)
	for i := range out {
		out[i] = start + i
	}
	return out
}

// needPipe: the shortest prefix length n of src for which the reference of the
// pipeline yields at least want outputs (or, if orDone, is known to have ended).
func needPipe(stages []stage, src []int, want int, orDone bool) (int, bool) {
	sat := func(n int) bool {
		out := refFinal(stages, strm{src[:n], false}, true)
		return len(out.e) >= want || (orDone && out.done)
	}
	if !sat(len(src)) {
		return 0, false
	}
	lo, hi := 0, len(src) // invariant: sat(hi)
	for lo < hi {
		mid := (lo + hi) / 2
		if sat(mid) {
			hi = mid
		} else {
			lo = mid + 1
		}
	}
	return hi, true
}

// needStage: the shortest prefix length p of the stage's input stream for
// which the stage yields at least want outputs or is known to have ended.
func needStage(st stage, in strm, want int) (int, bool) {
	sat := func(p int) bool {
		out := refStage(st, strm{in.e[:p], in.done && p == len(in.e)})
		return len(out.e) >= want || out.done
	}
	if !sat(len(in.e)) {
		return 0, false
	}
	lo, hi := 0, len(in.e)
	for lo < hi {
		mid := (lo + hi) / 2
		if sat(mid) {
			hi = mid
		} else {
			lo = mid + 1
		}
	}
	return hi, true
}

// compBound is the compositional reading of "each stage may hold one element
// of look-ahead": the consumer demands `demand` outputs of the last stage; a
// stage that is asked for A outputs may ask its own input for the number of
// elements the reference needs for A outputs plus c. The result is the number
// of source elements that may be pulled. ok=false: some look-ahead position is
// not known to exist within the reference prefix (the look-ahead itself could
// legitimately search forever), so nothing can be asserted.
func compBound(stages []stage, src []int, demand int, c int) (int, bool) {
	streams := refRun(stages, strm{src, false}, true)
	a := demand
	for i := len(stages); i >= 1; i-- {
		p, ok := needStage(stages[i-1], streams[i-1], a)
		if !ok {
			return 0, false
		}
		a = p + c
	}
	return a, true
}

type lazyPlan struct {
	skip  string // non-empty: nothing is asserted (reason)
	drain bool   // consume to the end instead of k elements
	k     int
	want  []int
	need  int
	bound int
}

// planIter decides demand and bound for an Iterator pipeline over the
// unbounded counting source, exactly as DESIGN.md §C12: pulls <= need(k) + L,
// L = 1 + number of stages; Drop(n) may consume at construction what its
// upstream needs to deliver n elements (not demanded otherwise).
func planIter(stages []stage, src []int, kSel int, drainSel bool) lazyPlan {
	full := refFinal(stages, strm{src, false}, true)
	allow := 0
	for i, st := range stages {
		if st.Op.Sem == sDrop && st.N > 0 {
			a, ok := needPipe(stages[:i], src, st.N, true)
			if !ok {
				return lazyPlan{skip: "drop-may-diverge"}
			}
			if a > allow {
				allow = a
			}
		}
	}
	K := len(full.e)
	L := 1 + len(stages)
	pl := lazyPlan{}
	if full.done && (drainSel || K == 0) {
		pl.drain = true
		pl.want = full.e
		n, ok := needPipe(stages, src, K+1, true)
		if !ok {
			return lazyPlan{skip: "internal"}
		}
		pl.need = n
	} else if K == 0 {
		return lazyPlan{skip: "no-output-in-prefix"}
	} else {
		kk := K
		if kk > kMax {
			kk = kMax
		}
		pl.k = 1 + kSel%kk
		pl.want = full.e[:pl.k]
		n, ok := needPipe(stages, src, pl.k, false)
		if !ok {
			return lazyPlan{skip: "internal"}
		}
		pl.need = n
	}
	pl.bound = pl.need
	if allow > pl.bound {
		pl.bound = allow
	}
	pl.bound += L
	return pl
}

// planList: as planIter, with the bound max(need(k)+L, compositional bound with
// one element of look-ahead per stage). list.FlatMap/FilterMap construct the
// FlatMap of the tail eagerly (one input cell of look-ahead); behind a sparse
// stage one input cell of a later stage costs several source cells, which the
// flat formula need(k)+L does not cover.
func planList(stages []stage, src []int, kSel int, drainSel bool) lazyPlan {
	full := refFinal(stages, strm{src, false}, true)
	K := len(full.e)
	L := 1 + len(stages)
	pl := lazyPlan{}
	demand := 0
	if full.done && (drainSel || K == 0) {
		pl.drain = true
		pl.want = full.e
		n, ok := needPipe(stages, src, K+1, true)
		if !ok {
			return lazyPlan{skip: "internal"}
		}
		pl.need = n
		demand = K + 1
	} else if K == 0 {
		return lazyPlan{skip: "no-output-in-prefix"}
	} else {
		kk := K
		if kk > kMax {
			kk = kMax
		}
		pl.k = 1 + kSel%kk
		pl.want = full.e[:pl.k]
		n, ok := needPipe(stages, src, pl.k, false)
		if !ok {
			return lazyPlan{skip: "internal"}
		}
		pl.need = n
		demand = pl.k
	}
	cb, ok := compBound(stages, src, demand, 1)
	if !ok {
		return lazyPlan{skip: "look-ahead-position-unknown"}
	}
	pl.bound = pl.need + L
	if cb > pl.bound {
		pl.bound = cb
	}
	return pl
}

// countingIter: unbounded source start, start+1, ... with a pull counter and fuel.
func countingIter(start int, pulls *int, fuel *kit.Fuel, variant int) fp.Iterator[int] {
	if variant == 1 {
		return iterator.FromList(list.Generate(func(i int) fp.Option[int] {
			fuel.Use()
			*pulls++
			return fp.Some(start + i)
		}))
	}
	return iterator.Generate(func() int {
		fuel.Use()
		v := start + *pulls
		*pulls++
		return v
	})
}

// countingList: unbounded memoised list start, start+1, ...; every generator
// call is a pull (a cell evaluated twice counts twice).
func countingList(start int, pulls *int, fuel *kit.Fuel, variant int) fp.List[int] {
	if variant == 1 {
		return list.GenerateFrom(start, func(i int) fp.Option[int] {
			fuel.Use()
			*pulls++
			return fp.Some(i)
		})
	}
	return list.Generate(func(i int) fp.Option[int] {
		fuel.Use()
		*pulls++
		return fp.Some(start + i)
	})
}

// demandIter issues exactly k HasNext;Next pairs and no trailing HasNext.
func demandIter(it fp.Iterator[int], k int) []int {
	out := []int{}
	for j := 0; j < k; j++ {
		if !it.HasNext() {
			break
		}
		out = append(out, it.Next())
	}
	return out
}

func opByName(ops []opInfo, name string) opInfo {
	for _, o := range ops {
		if o.Name == name {
			return o
		}
	}
	panic("no such op " + name)
}

func stripExcluded(stages []stage) ([]stage, bool) {
	out := []stage{}
	hit := false
	for _, s := range stages {
		if excluded(s.Op.Name) {
			hit = true
			continue
		}
		out = append(out, s)
	}
	return out, hit
}

const lazyRule = "source = unbounded instrumented counting generator start, start+1, ... (start 0..3; pull counter; fuel 4096 pulls); the harness' slice reference is evaluated on its 256-element prefix with 'known to have ended' tracking; demand k drawn in 1..min(12, outputs the reference obtains from that prefix); the consumer issues exactly k HasNext;Next pairs (lists: k NonEmpty;Head and k-1 Tail) and no trailing HasNext; when the reference knows the stream ends, a full drain is also drawn; oracle: elements equal the reference's and pulls <= need(k) + L with need(k) = shortest source prefix for which the reference yields k outputs and L = 1 + number of stages (Drop(n) may additionally consume at construction what its upstream needs for n elements); exhausting the source fuel is a violation; cases whose reference yields no output within the prefix without being known to end are not run (counted under label skip:*). "

func displayName(op opInfo) string {
	if strings.HasPrefix(op.Name, "iterator.") || strings.HasPrefix(op.Name, "list.") {
		return op.Name
	}
	return "Iterator." + op.Name
}

// iterLazyCase runs one laziness case for an Iterator pipeline.
func iterLazyCase(rt *rapid.T, rec *kit.Rec, sig string, stages []stage, single bool, extraDesc string) {
	start := rapid.IntRange(0, 3).Draw(rt, "start")
	variant := rapid.IntRange(0, 1).Draw(rt, "srcvariant")
	kSel := rapid.IntRange(0, kMax-1).Draw(rt, "ksel")
	drainSel := rapid.IntRange(0, 3).Draw(rt, "drainsel") == 0
	src := countingPrefix(start)
	pl := planIter(stages, src, kSel, drainSel)
	desc := fmt.Sprintf("from %d v%d | %s%s", start, variant, showPipe(stages), extraDesc)
	if pl.skip != "" {
		rec.Case(false, desc+" | skipped")
		rec.Label("skip:" + pl.skip)
		return
	}
	if pl.drain {
		desc += " | drain"
		rec.Label("mode:drain")
	} else {
		desc += fmt.Sprintf(" | k=%d", pl.k)
		rec.Label("mode:k")
	}
	if single {
		rec.Case(pl.drain || pl.k >= 2, desc)
	} else {
		rec.Case(nontrivialPipe(stages, prefixLen), desc)
	}
	labelStages(rec, stages)
	pulls := 0
	var got []int
	rec.Guard(rt, sig, func() {
		fuel := kit.NewFuel(srcFuel, fmt.Sprintf("unbounded source pulled %d times (reference needs %d, bound %d)", srcFuel, pl.need, pl.bound))
		it := buildIter(countingIter(start, &pulls, fuel, variant), stages, nil)
		if pl.drain {
			got = drain(it)
		} else {
			got = demandIter(it, pl.k)
		}
	})
	if show(got) != show(pl.want) {
		rec.Failf(rt, sig+"-ref", "%s: library yields %v, slice reference %v", desc, got, pl.want)
	}
	if pulls > pl.bound {
		rec.Failf(rt, sig, "%s: %d elements pulled from the unbounded source; the reference needs %d, bound need+L = %d", desc, pulls, pl.need, pl.bound)
	}
}

func listLazyCase(rt *rapid.T, rec *kit.Rec, sig string, stages []stage, single bool, extraDesc string) {
	start := rapid.IntRange(0, 3).Draw(rt, "start")
	variant := rapid.IntRange(0, 1).Draw(rt, "srcvariant")
	kSel := rapid.IntRange(0, kMax-1).Draw(rt, "ksel")
	drainSel := rapid.IntRange(0, 3).Draw(rt, "drainsel") == 0
	src := countingPrefix(start)
	pl := planList(stages, src, kSel, drainSel)
	desc := fmt.Sprintf("from %d v%d | %s%s", start, variant, showPipe(stages), extraDesc)
	if pl.skip != "" {
		rec.Case(false, desc+" | skipped")
		rec.Label("skip:" + pl.skip)
		return
	}
	if pl.drain {
		desc += " | drain"
		rec.Label("mode:drain")
	} else {
		desc += fmt.Sprintf(" | k=%d", pl.k)
		rec.Label("mode:k")
	}
	if single {
		rec.Case(pl.drain || pl.k >= 2, desc)
	} else {
		rec.Case(nontrivialPipe(stages, prefixLen), desc)
	}
	labelStages(rec, stages)
	pulls := 0
	var got []int
	rec.Guard(rt, sig, func() {
		fuel := kit.NewFuel(srcFuel, fmt.Sprintf("unbounded source list evaluated %d cells (reference needs %d, bound %d)", srcFuel, pl.need, pl.bound))
		l := buildList(countingList(start, &pulls, fuel, variant), stages)
		if pl.drain {
			got = walk(l)
		} else {
			got = takeCells(l, pl.k)
		}
	})
	if show(got) != show(pl.want) {
		rec.Failf(rt, sig+"-ref", "%s: library yields %v, slice reference %v", desc, got, pl.want)
	}
	if pulls > pl.bound {
		rec.Failf(rt, sig, "%s: %d source cells evaluated; the reference needs %d, bound = %d", desc, pulls, pl.need, pl.bound)
	}
}

func TestLaziness(t *testing.T) {
	// one sub-check per Iterator combinator, so that one offender does not hide the others
	for _, op := range unboundedOps(iterOps) {
		op := op
		name := displayName(op)
		kit.Check(t, name+"/lazy", "single stage "+name+" with drawn parameters (predicates: tables over x mod k or thresholds x==c, x<c, x>=c). "+lazyRule+"non-trivial iff k >= 2 or drain; distinct by printed (source, stage, demand).", termOpt, func(rt *rapid.T, rec *kit.Rec) {
			st := genStageOf(rt, op, false, 0)
			iterLazyCase(rt, rec, "C12|"+name+"|lazy", []stage{st}, true, "")
		})
	}
	// two-stage: every combinator followed by Take (the shape Generate(..).X.Take(n)),
	// again one sub-check per combinator
	for _, op := range unboundedOps(iterOps) {
		op := op
		name := displayName(op) + ".Take"
		kit.Check(t, name+"/lazy", "stage "+displayName(op)+" with drawn parameters followed by Take(n), n 0..6. "+lazyRule+"non-trivial iff k >= 2 or drain; distinct by printed (source, stages, demand).", termOpt, func(rt *rapid.T, rec *kit.Rec) {
			st := genStageOf(rt, op, false, 0)
			tk := stage{Op: opByName(iterOps, "Take"), N: rapid.IntRange(0, 6).Draw(rt, "take")}
			iterLazyCase(rt, rec, "C12|"+name+"|lazy", []stage{st, tk}, true, "")
		})
	}

	pipeLazyRule := "pipeline of 1..6 stages drawn from the Iterator stage set (Zip with the unbounded side first excluded; Filter/TakeWhile/DropWhile/FilterMap predicates are tables over x mod m, m 2..4, with at least one true and one false entry, so no stage can legitimately search forever on the counting source). " + lazyRule + "non-trivial iff >= 2 stages of which >= 1 has look-ahead; distinct by printed (source, pipeline, demand)."
	kit.Check(t, "Iterator.pipeline/lazy", pipeLazyRule, pipeOpt, func(rt *rapid.T, rec *kit.Rec) {
		stages := genPipeline(rt, unboundedOps(iterOps), 6, true)
		iterLazyCase(rt, rec, "C12|Iterator.pipeline|lazy", stages, false, "")
	})
	if len(ExcludeStages) > 0 {
		kit.Check(t, "Iterator.pipeline/lazy-excl", pipeLazyRule+fmt.Sprintf(" Stages %v (known findings) are removed from every generated pipeline; pipelines that contained one are counted as excluded.", ExcludeStages), pipeOpt, func(rt *rapid.T, rec *kit.Rec) {
			stages := genPipeline(rt, unboundedOps(iterOps), 6, true)
			stages, hit := stripExcluded(stages)
			if hit {
				rec.Excluded()
			}
			if len(stages) == 0 {
				rec.Case(false, "empty after exclusion")
				return
			}
			iterLazyCase(rt, rec, "C12|Iterator.pipeline|lazy-excl", stages, false, "")
		})
	}

	// lists
	for _, op := range unboundedOps(listOps) {
		op := op
		kit.Check(t, op.Name+"/lazy", "single stage "+op.Name+" over an unbounded memoised list.Generate/GenerateFrom source whose generator counts its calls. "+lazyRule+"For lists the bound is max(need(k)+L, compositional bound with one input cell of look-ahead per stage). non-trivial iff k >= 2 or drain.", termOpt, func(rt *rapid.T, rec *kit.Rec) {
			st := genStageOf(rt, op, false, 0)
			listLazyCase(rt, rec, "C12|"+op.Name+"|lazy", []stage{st}, true, "")
		})
	}
	listPipeRule := "pipeline of 1..6 stages drawn from list.Map, FilterMap, FlatMap, Combine (both sides), Concat, ZipWithIndex, Zip (finite side first), Scan over an unbounded memoised list source whose generator counts its calls; periodic predicates as for iterators. " + lazyRule + "For lists the bound is max(need(k)+L, compositional bound: a stage asked for A cells may force the input cells the reference needs for A outputs plus one); non-trivial iff >= 2 stages of which >= 1 has look-ahead."
	kit.Check(t, "List.pipeline/lazy", listPipeRule, pipeOpt, func(rt *rapid.T, rec *kit.Rec) {
		stages := genPipeline(rt, unboundedOps(listOps), 6, true)
		listLazyCase(rt, rec, "C12|List.pipeline|lazy", stages, false, "")
	})
	if len(ExcludeStages) > 0 {
		kit.Check(t, "List.pipeline/lazy-excl", listPipeRule+fmt.Sprintf(" Stages %v (known findings) are removed from every generated pipeline.", ExcludeStages), pipeOpt, func(rt *rapid.T, rec *kit.Rec) {
			stages := genPipeline(rt, unboundedOps(listOps), 6, true)
			stages, hit := stripExcluded(stages)
			if hit {
				rec.Excluded()
			}
			if len(stages) == 0 {
				rec.Case(false, "empty after exclusion")
				return
			}
			listLazyCase(rt, rec, "C12|List.pipeline|lazy-excl", stages, false, "")
		})
	}

	// adaptors between iterators and lists
	adaptor := func(name string, run func(start int, pulls *int, fuel *kit.Fuel, k int) []int) {
		kit.Check(t, name+"/lazy", name+" over the unbounded counting source; demand k in 1..12 (k cells / k HasNext;Next pairs); oracle: elements start..start+k-1 and pulls <= k + 1 (the adaptor may hold one element); non-trivial iff k >= 2; distinct by (start,k).", termOpt, func(rt *rapid.T, rec *kit.Rec) {
			start := rapid.IntRange(0, 3).Draw(rt, "start")
			k := rapid.IntRange(1, kMax).Draw(rt, "k")
			rec.Case(k >= 2, fmt.Sprintf("from %d k=%d", start, k))
			pulls := 0
			var got []int
			sig := "C12|" + name + "|lazy"
			rec.Guard(rt, sig, func() {
				got = run(start, &pulls, kit.NewFuel(srcFuel, "unbounded source pulled 4096 times"), k)
			})
			if show(got) != show(countingPrefix(start)[:k]) {
				rec.Failf(rt, sig+"-ref", "%s from %d, k=%d: got %v", name, start, k, got)
			}
			if pulls > k+1 {
				rec.Failf(rt, sig, "%s from %d, k=%d: %d elements pulled, bound k+1 = %d", name, start, k, pulls, k+1)
			}
		})
	}
	adaptor("list.Collect", func(start int, pulls *int, fuel *kit.Fuel, k int) []int {
		return takeCells(list.Collect(countingIter(start, pulls, fuel, 0)), k)
	})
	adaptor("iterator.ToList", func(start int, pulls *int, fuel *kit.Fuel, k int) []int {
		return takeCells(iterator.ToList(countingIter(start, pulls, fuel, 0)), k)
	})
	adaptor("iterator.FromList", func(start int, pulls *int, fuel *kit.Fuel, k int) []int {
		return demandIter(iterator.FromList(countingList(start, pulls, fuel, 0)), k)
	})
	adaptor("iterator.Generate", func(start int, pulls *int, fuel *kit.Fuel, k int) []int {
		return demandIter(countingIter(start, pulls, fuel, 0), k)
	})
	adaptor("list.Generate", func(start int, pulls *int, fuel *kit.Fuel, k int) []int {
		return takeCells(countingList(start, pulls, fuel, 0), k)
	})
	adaptor("list.GenerateFrom", func(start int, pulls *int, fuel *kit.Fuel, k int) []int {
		return takeCells(countingList(start, pulls, fuel, 1), k)
	})
}

// ---------------------------------------------------------------------------
// memoisation: every cell (thunk instance) of a memoised list is evaluated at most once

type counters struct {
	head map[int]int
	tail map[int]int
}

func newCounters() *counters { return &counters{head: map[int]int{}, tail: map[int]int{}} }

func (c *counters) worst() (string, int) {
	w, at := 0, ""
	scan := func(m map[int]int, what string) {
		keys := []int{}
		for k := range m {
			keys = append(keys, k)
		}
		sort.Ints(keys)
		for _, k := range keys {
			if m[k] > w {
				w, at = m[k], fmt.Sprintf("%s of cell %d", what, k)
			}
		}
	}
	scan(c.head, "head thunk")
	scan(c.tail, "tail thunk")
	return at, w
}

// traversal program over a root list
type trav struct {
	Op int
	K  int
}

var travNames = []string{"ToSeq", "Head*3", "cells", "FromList.Take", "Map.cells", "Zip(l,l).cells", "FlatMap.cells", "Scan.cells", "Fold", "Combine(l,l).cells", "Foreach{cells}", "innerCell+root", "Map twice", "FoldRight", "ZipWithIndex.cells", "FilterMap.cells"}

func (tr trav) String() string { return fmt.Sprintf("%s(%d)", travNames[tr.Op], tr.K) }

func finiteOnly(op int) bool { return op == 0 || op == 8 || op == 10 || op == 13 }

func runTrav(l fp.List[int], tr trav) {
	k := tr.K
	switch tr.Op {
	case 0:
		l.ToSeq()
	case 1:
		for j := 0; j < 3; j++ {
			if l.NonEmpty() {
				l.Head()
			}
		}
	case 2:
		takeCells(l, k)
	case 3:
		drain(iterator.FromList(l).Take(k))
	case 4:
		takeCells(list.Map(l, func(x int) int { return x + 1 }), k)
	case 5:
		z := list.Zip(l, l)
		for i := 0; i < k && z.NonEmpty(); i++ {
			z.Head()
			z = z.Tail()
		}
	case 6:
		takeCells(list.FlatMap(l, func(x int) fp.List[int] { return list.Of(x, x) }), k)
	case 7:
		takeCells(list.Scan(l, 0, func(a, x int) int { return a + x }), k)
	case 8:
		list.Fold(l, 0, func(a, x int) int { return a + x })
	case 9:
		takeCells(list.Combine(l, l), k)
	case 10:
		l.Foreach(func(int) { takeCells(l, k) })
	case 11:
		c := l
		for i := 0; i < k && c.NonEmpty(); i++ {
			c = c.Tail()
		}
		if c.NonEmpty() {
			c.Head()
			c.Tail()
		}
		takeCells(l, k+1)
	case 12:
		m := list.Map(l, func(x int) int { return x * 2 })
		takeCells(m, k)
		takeCells(m, k)
	case 13:
		list.FoldLeft(l, 0, func(a, x int) int { return a + x })
	case 14:
		z := list.ZipWithIndex(l)
		for i := 0; i < k && z.NonEmpty(); i++ {
			z.Head()
			z = z.Tail()
		}
	default:
		takeCells(list.FilterMap(l, func(x int) fp.Option[int] {
			if x%2 == 0 {
				return fp.Some(x)
			}
			return fp.None[int]()
		}), k)
	}
}

// countedHandList: hand-made MakeList cells; reentrant: the head thunk of cell
// i first reads the cells before i of the same root list (never itself).
func countedHandList(n int, i int, c *counters, fuel *kit.Fuel, reentrant bool, root *fp.List[int]) fp.List[int] {
	return fp.MakeList(func() fp.Option[int] {
		fuel.Use()
		c.head[i]++
		if reentrant && i > 0 && *root != nil {
			takeCells(*root, i)
		}
		if n < 0 || i < n {
			return fp.Some(i)
		}
		return fp.None[int]()
	}, func() fp.List[int] {
		fuel.Use()
		c.tail[i]++
		if n >= 0 && i >= n {
			return list.Empty[int]()
		}
		return countedHandList(n, i+1, c, fuel, reentrant, root)
	})
}

func TestMemo(t *testing.T) {
	type builder struct {
		name  string
		build func(n int, c *counters, fuel *kit.Fuel, flag bool) fp.List[int]
	}
	builders := []builder{
		{"list.Generate", func(n int, c *counters, fuel *kit.Fuel, _ bool) fp.List[int] {
			return list.Generate(func(i int) fp.Option[int] {
				fuel.Use()
				c.head[i]++
				if n < 0 || i < n {
					return fp.Some(i)
				}
				return fp.None[int]()
			})
		}},
		{"list.GenerateFrom", func(n int, c *counters, fuel *kit.Fuel, _ bool) fp.List[int] {
			return list.GenerateFrom(2, func(i int) fp.Option[int] {
				fuel.Use()
				c.head[i]++
				if n < 0 || i < n+2 {
					return fp.Some(i)
				}
				return fp.None[int]()
			})
		}},
		{"fp.MakeList", func(n int, c *counters, fuel *kit.Fuel, reentrant bool) fp.List[int] {
			var root fp.List[int]
			root = countedHandList(n, 0, c, fuel, reentrant, &root)
			return root
		}},
		{"list.Collect", func(n int, c *counters, fuel *kit.Fuel, _ bool) fp.List[int] {
			i := 0
			return list.Collect(fp.MakeIterator(func() bool { return n < 0 || i < n }, func() int {
				fuel.Use()
				c.head[i]++
				i++
				return i - 1
			}))
		}},
		{"iterator.ToList", func(n int, c *counters, fuel *kit.Fuel, _ bool) fp.List[int] {
			i := 0
			return iterator.ToList(fp.MakeIterator(func() bool { return n < 0 || i < n }, func() int {
				fuel.Use()
				c.head[i]++
				i++
				return i - 1
			}))
		}},
		{"list.Recurrence1", func(n int, c *counters, fuel *kit.Fuel, _ bool) fp.List[int] {
			// unbounded by nature; the relation is the tail thunk's work: it runs once per cell
			return list.Recurrence1(0, func(a int) int {
				fuel.Use()
				c.tail[a]++
				return a + 1
			})
		}},
	}
	for _, b := range builders {
		b := b
		kit.Check(t, b.name+"/once", "root list built with "+b.name+" (finite with n 0..8 cells, or unbounded) whose head/tail thunks (generator calls, iterator pulls) count their executions per cell; a drawn program of 2..6 traversals (ToSeq, Head x3, first k cells, iterator.FromList.Take(k), Map/Zip(l,l)/FlatMap/Scan/Combine(l,l)/ZipWithIndex/FilterMap cells, Fold, FoldLeft, Foreach re-entering the list, walking from an inner cell and again from the root, a mapped list traversed twice; unbounded roots only get the bounded ones); fp.MakeList: optionally re-entrant head thunks that read the earlier cells of the same root; oracle: no thunk instance executes twice (how often a combinator applies a user function is not counted); non-trivial iff >= 2 cells and >= 2 traversals; distinct by printed (n, program).", termOpt, func(rt *rapid.T, rec *kit.Rec) {
			n := rapid.IntRange(-1, 8).Draw(rt, "n")
			if b.name == "list.Recurrence1" {
				n = -1
			}
			flag := rapid.Bool().Draw(rt, "reentrant")
			np := rapid.IntRange(2, 6).Draw(rt, "nprog")
			prog := []trav{}
			for i := 0; i < np; i++ {
				op := rapid.IntRange(0, len(travNames)-1).Draw(rt, "op")
				if n < 0 && finiteOnly(op) {
					op = 2
				}
				prog = append(prog, trav{op, rapid.IntRange(1, 6).Draw(rt, "k")})
			}
			desc := fmt.Sprintf("n=%d reentrant=%v %v", n, flag && b.name == "fp.MakeList", prog)
			rec.Case((n < 0 || n >= 2) && len(prog) >= 2, desc)
			c := newCounters()
			sig := "C12|" + b.name + "|once"
			rec.Guard(rt, sig, func() {
				fuel := kit.NewFuel(20000, "list thunks executed 20000 times")
				l := b.build(n, c, fuel, flag)
				for _, tr := range prog {
					runTrav(l, tr)
				}
			})
			if at, w := c.worst(); w > 1 {
				rec.Failf(rt, sig, "%s: %s executed %d times under %s", b.name, at, w, desc)
			}
		})
	}
}
