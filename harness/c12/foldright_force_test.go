package c12

import (
	"fmt"
	"testing"

	"github.com/csgura/fp"
	"github.com/csgura/fp/iterator"
	"github.com/csgura/fp/lazy"
	"github.com/csgura/fp/list"
	"github.com/csgura/fp/seq"
	"pgregory.net/rapid"

	"verifharness/kit"
)

// FoldRight hands the step function a lazy tail. A step function may look at that tail zero, one or
// several times (peek-then-use is ordinary code: `if rest.Get() > x {...}; return x + rest.Get()`);
// whatever it does, the result must be the right fold of the eager computation. Added after an
// independently seeded change (un-memoised TailCall) that only showed when the tail is forced twice:
// iterator.FoldRight then re-folds what is left of the one-shot iterator.
func TestFoldRightForce(t *testing.T) {
	type folder struct {
		name string
		run  func(kind int, xs []int, z int, f func(int, lazy.Eval[int]) lazy.Eval[int]) int
		nk   int
	}
	folders := []folder{
		{"iterator.FoldRight", func(kind int, xs []int, z int, f func(int, lazy.Eval[int]) lazy.Eval[int]) int {
			return iterator.FoldRight(mkIter(kind, xs), z, f).Get()
		}, 5},
		{"list.FoldRight", func(kind int, xs []int, z int, f func(int, lazy.Eval[int]) lazy.Eval[int]) int {
			return list.FoldRight(mkList(kind, xs), z, f).Get()
		}, 5},
		{"seq.FoldRight", func(kind int, xs []int, z int, f func(int, lazy.Eval[int]) lazy.Eval[int]) int {
			return seq.FoldRight(fp.Seq[int](cp(xs)), z, f).Get()
		}, 1},
	}
	for _, fd := range folders {
		fd := fd
		kit.Check(t, fd.name+"/force-pattern", "xs (len 0..8), zero, and per element how often the step function forces its lazy tail (0, 1, 2 or 3 times; strictly inside the step or deferred through Map/FlatMap); oracle: right fold over the slice with the same step; non-trivial iff some element forces its tail >= 2 times and len(xs) >= 2; distinct by printed case", termOpt, func(rt *rapid.T, rec *kit.Rec) {
			xs := rapid.SliceOfN(rapid.IntRange(-3, 8), 0, 8).Draw(rt, "xs")
			z := rapid.IntRange(-2, 3).Draw(rt, "zero")
			kind := rapid.IntRange(0, fd.nk-1).Draw(rt, "kind")
			// the pattern is keyed by the element's VALUE (x+3 in 0..11), not by call order, so that the
			// harness does not depend on how often or in which order the library calls the step function
			forces := make([]int, 12)
			deferred := make([]bool, 12)
			for i := range forces {
				forces[i] = rapid.IntRange(0, 3).Draw(rt, "forces")
				deferred[i] = rapid.Bool().Draw(rt, "deferred")
			}
			multi := false
			pat := make([]int, len(xs))
			for i, x := range xs {
				pat[i] = forces[x+3]
				if pat[i] >= 2 {
					multi = true
				}
			}
			rec.Case(multi && len(xs) >= 2, fmt.Sprintf("k%d xs=%v z=%d forces=%v deferred=%v", kind, xs, z, forces, deferred))
			// reference: plain right fold, element i combines with the fold of the rest iff it looks at it
			ref := z
			for i := len(xs) - 1; i >= 0; i-- {
				if pat[i] == 0 {
					ref = xs[i] * 7
				} else {
					ref = stepR(xs[i], ref) + pat[i]
				}
			}
			fuel := kit.NewFuel(4096, fd.name+" step function")
			stepFn := func(x int, rest lazy.Eval[int]) lazy.Eval[int] {
				fuel.Use()
				i := x + 3
				n := forces[i]
				if n == 0 {
					return lazy.Done(x * 7)
				}
				if deferred[i] {
					// force the tail lazily, n times, all forcings must agree
					return rest.FlatMap(func(first int) lazy.Eval[int] {
						for k := 1; k < n; k++ {
							if again := rest.Get(); again != first {
								panic(fmt.Sprintf("tail behind value %d evaluated to %d and then to %d", i, first, again))
							}
						}
						return lazy.Done(stepR(x, first) + n)
					})
				}
				first := rest.Get()
				for k := 1; k < n; k++ {
					if again := rest.Get(); again != first {
						panic(fmt.Sprintf("tail behind value %d evaluated to %d and then to %d", i, first, again))
					}
				}
				return lazy.Done(stepR(x, first) + n)
			}
			var got int
			rec.Guard(rt, "C12|"+fd.name+"|force-pattern", func() { got = fd.run(kind, xs, z, stepFn) })
			if got != ref {
				rec.Failf(rt, "C12|"+fd.name+"|force-pattern", "%s(%v, %d) with tail-forcing pattern %v = %d, right fold over the slice = %d", fd.name, xs, z, pat, got, ref)
			}
		})
	}
}
