package c12

import (
	"sort"
	"strconv"
	"testing"

	"github.com/csgura/fp"
	"github.com/csgura/fp/iterator"
	"github.com/csgura/fp/lazy"
	"github.com/csgura/fp/list"
	"github.com/csgura/fp/monoid"
	"github.com/csgura/fp/seq"

	"verifharness/kit"
)

func itoaComma(x int) string { return strconv.Itoa(x) + "," }

// TestListPkg: one sub-check per function of package list (and the List
// interface methods of every list representation).
func TestListPkg(t *testing.T) {
	comb(t, "List.methods", uXS|uLK, "IsEmpty/NonEmpty/Head/Tail/Unapply/Foreach/ToSeq of every list representation agree with xs; Tail of the empty list is empty.",
		func(e *env) any {
			l := e.li(e.xs)
			s := show([]bool{l.IsEmpty(), l.NonEmpty()})
			if l.NonEmpty() {
				h, tl := l.Unapply()
				s += show(l.Head()) + show(h) + show(walk(tl)) + show(walk(l.Tail()))
			} else {
				s += show(walk(l.Tail())) + show(l.Tail().IsEmpty())
			}
			tr := []int{}
			l.Foreach(func(x int) { e.fuel.Use(); tr = append(tr, x) })
			return s + show(tr) + show(l.ToSeq()) + show(walk(l)) + optS(list.Head(l))
		},
		func(e *env) any {
			s := show([]bool{len(e.xs) == 0, len(e.xs) != 0})
			ho := "None"
			if len(e.xs) > 0 {
				s += show(e.xs[0]) + show(e.xs[0]) + show(e.xs[1:]) + show(e.xs[1:])
				ho = "Some(" + strconv.Itoa(e.xs[0]) + ")"
			} else {
				s += "[]true"
			}
			return s + show(e.xs) + show(e.xs) + show(e.xs) + ho
		})
	combLi(t, "list.Empty", 0, "Empty is empty.",
		func(e *env) fp.List[int] { return list.Empty[int]() },
		func(e *env) []int { return nil })
	combLi(t, "list.Of", uXS, "Of(xs...) = xs.",
		func(e *env) fp.List[int] { return list.Of(cp(e.xs)...) },
		func(e *env) []int { return e.xs })
	combLi(t, "list.FromSeq", uXS, "FromSeq(xs) = xs.",
		func(e *env) fp.List[int] { return list.FromSeq(cp(e.xs)) },
		func(e *env) []int { return e.xs })
	combLi(t, "list.FromSlice", uXS, "FromSlice(xs) = xs.",
		func(e *env) fp.List[int] { return list.FromSlice(cp(e.xs)) },
		func(e *env) []int { return e.xs })
	combLi(t, "list.Apply", uXS|uLK|uM, "Apply(m, l) and Concat(m, l) = [m] ++ xs.",
		func(e *env) fp.List[int] {
			if e.m%2 == 0 {
				return list.Apply(e.m, e.li(e.xs))
			}
			return list.Concat(e.m, e.li(e.xs))
		},
		func(e *env) []int { return rCat([]int{e.m}, e.xs) })
	combLi(t, "list.Generate", uXS, "Generate(i -> xs[i] while i < len) = xs.",
		func(e *env) fp.List[int] {
			return list.Generate(func(i int) fp.Option[int] {
				e.fuel.Use()
				if i < len(e.xs) {
					return fp.Some(e.xs[i])
				}
				return fp.None[int]()
			})
		},
		func(e *env) []int { return e.xs })
	combLi(t, "list.GenerateFrom", uXS|uN, "GenerateFrom(s, i -> xs[i]) = xs[s:].",
		func(e *env) fp.List[int] {
			return list.GenerateFrom(e.n, func(i int) fp.Option[int] {
				e.fuel.Use()
				if i < len(e.xs) {
					return fp.Some(e.xs[i])
				}
				return fp.None[int]()
			})
		},
		func(e *env) []int { return rDrop(e.xs, e.n) })
	comb(t, "list.Recurrence1", uN|uM|uF, "first n cells of Recurrence1(m, f) = m, f m, f(f m), ...",
		func(e *env) any { return takeCells(list.Recurrence1(e.m, e.F), e.n) },
		func(e *env) any {
			out := []int{}
			a := e.m
			for i := 0; i < e.n; i++ {
				out = append(out, a)
				a = e.f.Call(a)
			}
			return out
		})
	comb(t, "list.Recurrence2", uN|uM|uF, "first n cells of Recurrence2(m, m+1, (a,b) -> f a + b).",
		func(e *env) any {
			return takeCells(list.Recurrence2(e.m, e.m+1, func(a, b int) int { return e.F(a) + b }), e.n)
		},
		func(e *env) any {
			out := []int{}
			a, b := e.m, e.m+1
			for i := 0; i < e.n; i++ {
				out = append(out, a)
				a, b = b, e.f.Call(a)+b
			}
			return out
		})
	combLi(t, "list.Map", uXS|uLK|uF, "Map(l, f).",
		func(e *env) fp.List[int] { return list.Map(e.li(e.xs), e.F) },
		func(e *env) []int { return rMap(e.xs, e.f.Call) })
	combLi(t, "list.Lift", uXS|uLK|uF, "Lift(f)(l) = Map.",
		func(e *env) fp.List[int] { return list.Lift(e.F)(e.li(e.xs)) },
		func(e *env) []int { return rMap(e.xs, e.f.Call) })
	combLi(t, "list.Map2", uXS|uYS|uLK, "Map2(a, b, f) = [f(x,y) | x <- xs, y <- ys] (x-major).",
		func(e *env) fp.List[int] {
			return list.Map2(e.li(e.xs), e.li(e.ys), func(x, y int) int { return x*10 + y })
		},
		func(e *env) []int {
			out := []int{}
			for _, x := range e.xs {
				for _, y := range e.ys {
					out = append(out, x*10+y)
				}
			}
			return out
		})
	combLi(t, "list.Ap", uXS|uYS|uLK, "Ap(fs, l) = [f x | f <- fs, x <- xs] with fs = (+y) for y in ys.",
		func(e *env) fp.List[int] {
			fs := list.Map(e.li(e.ys), func(y int) fp.Func1[int, int] { return func(x int) int { return x + 100*y } })
			return list.Ap(fs, e.li(e.xs))
		},
		func(e *env) []int {
			out := []int{}
			for _, y := range e.ys {
				for _, x := range e.xs {
					out = append(out, x+100*y)
				}
			}
			return out
		})
	combLi(t, "list.FilterMap", uXS|uLK|uF|uP, "FilterMap(l, x -> Some(f x) if p x else None).",
		func(e *env) fp.List[int] {
			return list.FilterMap(e.li(e.xs), func(x int) fp.Option[int] {
				if e.p.Call(x) {
					return fp.Some(e.f.Call(x))
				}
				return fp.None[int]()
			})
		},
		func(e *env) []int { return rMap(rFilter(e.xs, e.p.Call), e.f.Call) })
	combLi(t, "list.FlatMap", uXS|uYS|uLK, "FlatMap(l, x -> list of 0..3 elements).",
		func(e *env) fp.List[int] {
			in := e.inner()
			return list.FlatMap(e.li(e.xs), func(x int) fp.List[int] { return mkList((x+e.lk)%nListKinds, in.Call(x)) })
		},
		func(e *env) []int { return rFlatMap(e.xs, e.inner().Call) })
	combLi(t, "list.Flatten", uXS|uYS|uLK, "Flatten(list of lists) = concatenation.",
		func(e *env) fp.List[int] {
			in := e.inner()
			return list.Flatten(list.Map(e.li(e.xs), func(x int) fp.List[int] { return mkList(e.lk, in.Call(x)) }))
		},
		func(e *env) []int { return rFlatMap(e.xs, e.inner().Call) })
	combLi(t, "list.Compose", uXS|uYS|uLK|uM, "Compose(f1,f2)(m) = flatMap f2 over f1(m), followed by ComposePure(*2)(m).",
		func(e *env) fp.List[int] {
			in := e.inner()
			f1 := func(a int) fp.List[int] { return e.li(rMap(e.xs, func(x int) int { return x + a })) }
			f2 := func(x int) fp.List[int] { return list.Of(in.Call(x)...) }
			return list.Combine(list.Compose(f1, f2)(e.m), list.ComposePure(func(a int) int { return a * 2 })(e.m))
		},
		func(e *env) []int {
			return rCat(rFlatMap(rMap(e.xs, func(x int) int { return x + e.m }), e.inner().Call), []int{e.m * 2})
		})
	combLi(t, "list.ReverseSeq", uXS, "ReverseSeq(xs) = reversed xs.",
		func(e *env) fp.List[int] { return list.ReverseSeq(cp(e.xs)) },
		func(e *env) []int { return rRev(e.xs) })
	combLi(t, "list.ReverseSlice", uXS, "ReverseSlice(xs) = reversed xs.",
		func(e *env) fp.List[int] { return list.ReverseSlice(cp(e.xs)) },
		func(e *env) []int { return rRev(e.xs) })
	combLi(t, "list.FromPtr", uM, "FromPtr(nil / &m) and FromOption(None / Some m) = [] / [m].",
		func(e *env) fp.List[int] {
			if e.m < 0 {
				return list.Combine(list.FromPtr[int](nil), list.FromOption(fp.None[int]()))
			}
			v := e.m
			return list.Combine(list.FromPtr(&v), list.FromOption(fp.Some(e.m)))
		},
		func(e *env) []int {
			if e.m < 0 {
				return nil
			}
			return []int{e.m, e.m}
		})
	comb(t, "list.FromMap", uXS, "FromMap/FromMapKey/FromMapValue enumerate the Go map exactly once per entry (compared as sorted multisets).",
		func(e *env) any {
			m := lastWins(e.xs)
			ps := []string{}
			for _, p := range walk(list.FromMap(m)) {
				ps = append(ps, strconv.Itoa(p.I1)+":"+strconv.Itoa(p.I2))
			}
			sort.Strings(ps)
			return show(ps) + show(rSorted(walk(list.FromMapKey(m)))) + show(rSorted(walk(list.FromMapValue(m))))
		},
		func(e *env) any {
			m := lastWins(e.xs)
			ps, ks, vs := []string{}, []int{}, []int{}
			for k, v := range m {
				ps = append(ps, strconv.Itoa(k)+":"+strconv.Itoa(v))
				ks = append(ks, k)
				vs = append(vs, v)
			}
			sort.Strings(ps)
			sort.Ints(ks)
			sort.Ints(vs)
			return show(ps) + show(ks) + show(vs)
		})
	combLi(t, "list.Collect", uXS|uIK, "Collect(iterator over xs) = xs, traversable twice.",
		func(e *env) fp.List[int] { return list.Collect(e.it(e.xs)) },
		func(e *env) []int { return e.xs })
	combLi(t, "list.Combine", uXS|uYS|uZS|uLK|uN, "Combine in three association shapes = concatenation.",
		func(e *env) fp.List[int] {
			a, b, c := e.li(e.xs), e.li(e.ys), e.li(e.zs)
			switch e.n % 3 {
			case 0:
				return list.Combine(a, b)
			case 1:
				return list.Combine(list.Combine(a, b), c)
			default:
				return list.Combine(a, list.Combine(b, c))
			}
		},
		func(e *env) []int {
			if e.n%3 == 0 {
				return rCat(e.xs, e.ys)
			}
			return rCat(e.xs, e.ys, e.zs)
		})

	comb(t, "list.ToMap", uXS|uLK, "ToMap of pairs (x_i, i): later pair wins.",
		func(e *env) any { return fpMapContent(list.ToMap(list.FromSeq(pairsOf(e.xs)), intHash)) },
		func(e *env) any {
			m := lastWins(e.xs)
			return show(m) + "#" + strconv.Itoa(len(m)) + "/" + strconv.Itoa(len(m))
		})
	comb(t, "list.ToGoMap", uXS, "ToGoMap of pairs (x_i, i): later pair wins.",
		func(e *env) any { return list.ToGoMap(list.Collect(iterator.FromSeq(pairsOf(e.xs)))) },
		func(e *env) any { return lastWins(e.xs) })
	comb(t, "list.ToSet", uXS|uLK, "ToSet = set of distinct xs.",
		func(e *env) any { return fpSetContent(list.ToSet(e.li(e.xs), intHash)) },
		func(e *env) any { d := distinctSorted(e.xs); return show(d) + "/" + strconv.Itoa(len(d)) })
	comb(t, "list.ToGoSet", uXS|uLK, "ToGoSet = set of distinct xs.",
		func(e *env) any { return goSetContent(list.ToGoSet(e.li(e.xs))) },
		func(e *env) any { return distinctSorted(e.xs) })

	comb(t, "list.Zip", uXS|uYS|uLK, "Zip = pairs up to the shorter length.",
		func(e *env) any {
			out := []int{}
			for _, p := range walk(list.Zip(e.li(e.xs), e.li(e.ys))) {
				out = append(out, p.I1, p.I2)
			}
			return out
		},
		func(e *env) any {
			out := []int{}
			for i := 0; i < len(e.xs) && i < len(e.ys); i++ {
				out = append(out, e.xs[i], e.ys[i])
			}
			return out
		})
	comb(t, "list.Zip3", uXS|uYS|uZS|uLK, "Zip3 = triples up to the shortest length.",
		func(e *env) any {
			out := []int{}
			for _, p := range walk(list.Zip3(e.li(e.xs), e.li(e.ys), e.li(e.zs))) {
				out = append(out, p.I1, p.I2, p.I3)
			}
			return out
		},
		func(e *env) any {
			out := []int{}
			for i := 0; i < len(e.xs) && i < len(e.ys) && i < len(e.zs); i++ {
				out = append(out, e.xs[i], e.ys[i], e.zs[i])
			}
			return out
		})
	comb(t, "list.ZipWithIndex", uXS|uLK, "ZipWithIndex = (i, x_i).",
		func(e *env) any {
			out := []int{}
			for _, p := range walk(list.ZipWithIndex(e.li(e.xs))) {
				out = append(out, p.I1, p.I2)
			}
			return out
		},
		func(e *env) any {
			out := []int{}
			for i, x := range e.xs {
				out = append(out, i, x)
			}
			return out
		})

	comb(t, "list.Reduce", uXS|uLK, "Reduce over the String monoid = left-to-right concatenation.",
		func(e *env) any { return list.Reduce(list.Map(e.li(e.xs), strconv.Itoa), monoid.String) },
		func(e *env) any { return rJoin(e.xs, "") })
	foldRef := func(e *env) any {
		a := e.m
		for _, x := range e.xs {
			a = step(a, x)
		}
		return a
	}
	comb(t, "list.Fold", uXS|uLK|uM, "Fold with an order-sensitive step = left fold.",
		func(e *env) any {
			return list.Fold(e.li(e.xs), e.m, func(a, x int) int { e.fuel.Use(); return step(a, x) })
		}, foldRef)
	comb(t, "list.FoldLeft", uXS|uLK|uM, "FoldLeft with an order-sensitive step = left fold.",
		func(e *env) any {
			return list.FoldLeft(e.li(e.xs), e.m, func(a, x int) int { e.fuel.Use(); return step(a, x) })
		}, foldRef)
	comb(t, "list.FoldLeftUsingMap", uXS|uLK|uM, "FoldLeftUsingMap with an order-sensitive step = left fold.",
		func(e *env) any {
			return list.FoldLeftUsingMap(e.li(e.xs), e.m, func(a, x int) int { e.fuel.Use(); return step(a, x) })
		}, foldRef)
	comb(t, "list.FoldRightUsingMap", uXS|uLK|uM, "FoldRightUsingMap with an order-sensitive step = right fold.",
		func(e *env) any {
			return list.FoldRightUsingMap(e.li(e.xs), e.m, func(x, a int) int { e.fuel.Use(); return stepR(x, a) })
		},
		func(e *env) any { return rFoldRight(e.xs, e.m, stepR) })
	comb(t, "list.FoldMap", uXS|uLK|uF, "FoldMap over the String monoid = concatenation of f(x) in order.",
		func(e *env) any {
			return list.FoldMap(e.li(e.xs), monoid.String, func(x int) string { return itoaComma(e.F(x)) })
		},
		func(e *env) any {
			s := ""
			for _, x := range e.xs {
				s += itoaComma(e.f.Call(x))
			}
			return s
		})
	comb(t, "list.FoldTry", uXS|uLK|uM|uP, "FoldTry: left fold that stops with the first Failure.",
		func(e *env) any {
			return tryS(list.FoldTry(e.li(e.xs), e.m, func(a, x int) fp.Try[int] {
				if e.P(x) {
					return fp.Success(step(a, x))
				}
				return fp.Failure[int](errOf(x))
			}))
		},
		func(e *env) any { return refFoldTry(e) })
	comb(t, "list.FoldOption", uXS|uLK|uM|uP, "FoldOption: left fold that stops with the first None.",
		func(e *env) any {
			return optS(list.FoldOption(e.li(e.xs), e.m, func(a, x int) fp.Option[int] {
				if e.P(x) {
					return fp.Some(step(a, x))
				}
				return fp.None[int]()
			}))
		},
		func(e *env) any { return refFoldOption(e) })
	comb(t, "list.FoldError", uXS|uLK|uP, "FoldError: visits elements in order until the first error; visited prefix compared too.",
		func(e *env) any {
			tr := []int{}
			err := list.FoldError(e.li(e.xs), func(x int) error {
				tr = append(tr, x)
				if e.P(x) {
					return nil
				}
				return errOf(x)
			})
			return kit.ErrName(err) + show(tr)
		},
		func(e *env) any { return refFoldError(e) })
	comb(t, "list.FoldRight", uXS|uLK|uM|uP, "FoldRight with lazy.Eval: strict right fold, and a variant that ignores the rest where !p(x).",
		func(e *env) any {
			strict := list.FoldRight(e.li(e.xs), e.m, func(x int, rest lazy.Eval[int]) lazy.Eval[int] {
				e.fuel.Use()
				return rest.Map(func(acc int) int { return stepR(x, acc) })
			}).Get()
			short := list.FoldRight(e.li(e.xs), e.m, func(x int, rest lazy.Eval[int]) lazy.Eval[int] {
				if !e.P(x) {
					return lazy.Done(x)
				}
				return rest.Map(func(acc int) int { return stepR(x, acc) })
			}).Get()
			return []int{strict, short}
		},
		func(e *env) any { return refFoldRight(e) })
	combLi(t, "list.Scan", uXS|uLK|uM, "Scan = [z, step(z,x0), ...] (len+1 elements).",
		func(e *env) fp.List[int] {
			return list.Scan(e.li(e.xs), e.m, func(a, x int) int { e.fuel.Use(); return step(a, x) })
		},
		func(e *env) []int { return rScan(e.xs, e.m, step) })
	comb(t, "list.GroupBy", uXS|uLK|uF, "GroupBy(f): key -> elements in original order.",
		func(e *env) any {
			r := map[int][]int{}
			for k, v := range list.GroupBy(e.li(e.xs), e.F) {
				r[k] = []int(v)
			}
			return r
		},
		func(e *env) any { return refGroupBy(e) })
	combLi(t, "list.Range", uN|uM, "Range(m, n-3) = m..n-4.",
		func(e *env) fp.List[int] { return list.Range(e.m, e.n-3) },
		func(e *env) []int {
			out := []int{}
			for i := e.m; i < e.n-3; i++ {
				out = append(out, i)
			}
			return out
		})
	combLi(t, "list.RangeClosed", uN|uM, "RangeClosed(m, n-3) = m..n-3.",
		func(e *env) fp.List[int] { return list.RangeClosed(e.m, e.n-3) },
		func(e *env) []int {
			out := []int{}
			for i := e.m; i <= e.n-3; i++ {
				out = append(out, i)
			}
			return out
		})
	comb(t, "list.Sort", uXS|uLK, "Sort = ascending permutation of xs.",
		func(e *env) any { return []int(list.Sort(e.li(e.xs), intOrd)) },
		func(e *env) any { return rSorted(e.xs) })
	comb(t, "list.Min", uXS|uLK, "Min = smallest element or None.",
		func(e *env) any { return optS(list.Min(e.li(e.xs), intOrd)) },
		func(e *env) any { return refMinMax(e.xs, false) })
	comb(t, "list.Max", uXS|uLK, "Max = largest element or None.",
		func(e *env) any { return optS(list.Max(e.li(e.xs), intOrd)) },
		func(e *env) any { return refMinMax(e.xs, true) })
	comb(t, "list.Min/tied-keys", uXS|uLK, "Records (key = x mod 3, position) ordered by key only: list.Min returns the same record as seq.Min over the same records.",
		func(e *env) any { return show(list.Min(list.Map(e.li(positions(e.xs)), recAt(e.xs)), keyOrd)) },
		func(e *env) any { return show(seq.Min(records(e.xs), keyOrd)) })
	comb(t, "list.Max/tied-keys", uXS|uLK, "Records (key = x mod 3, position) ordered by key only: list.Max returns the same record as seq.Max over the same records.",
		func(e *env) any { return show(list.Max(list.Map(e.li(positions(e.xs)), recAt(e.xs)), keyOrd)) },
		func(e *env) any { return show(seq.Max(records(e.xs), keyOrd)) })
}

// takeCells reads the first n cells of a (possibly unbounded) list.
func takeCells(l fp.List[int], n int) []int {
	out := []int{}
	for i := 0; i < n && l.NonEmpty(); i++ {
		out = append(out, l.Head())
		if i+1 < n {
			l = l.Tail()
		}
	}
	return out
}
