package c18

// C18: Clone instances built from the clone package's combinators produce
// copies that are structurally equal to the original and share no mutable
// storage with it.
//
// For every instance expression of the catalogue four independent sub-checks:
//   equal     canonical form (nil ≅ empty) of clone == canonical form of original
//   disjoint  no pointer target / backing array (cap > 0) / Go map reachable from both
//   mut-clone snapshot original, mutate the clone through every path, original unchanged
//   mut-orig  snapshot clone, mutate the original through every path, clone unchanged
// equal and disjoint also draw internally aliased inputs (one pointer / slice /
// map placed at two positions); nothing is demanded about aliasing inside the clone.

import (
	"fmt"
	"reflect"
	"sort"
	"strings"
	"sync"
	"testing"

	"github.com/csgura/fp"
	"github.com/csgura/fp/as"
	"github.com/csgura/fp/clone"
	"github.com/csgura/fp/hlist"
	"github.com/csgura/fp/lazy"
	"pgregory.net/rapid"

	"verifharness/kit"
)

func TestMain(m *testing.M) { kit.Main(m) }

type entry struct {
	name string
	run  func(t *testing.T)
}

const ntRule = "non-trivial iff the longest chain of non-nil pointers / non-empty slices / non-empty maps in the input is >= min(2, longest chain its type allows) (reference-free types: iff the input is not the zero value); distinct by printed input incl. nil-vs-empty, spare capacity and alias ordinals"

// mk builds the four sub-checks of one instance expression. name must spell the expression.
func mk[T any](name string, inst fp.Clone[T]) entry {
	typ := reflect.TypeOf((*T)(nil)).Elem()
	td := typeDepth(typ)
	need := td
	if need > 2 {
		need = 2
	}
	sig := func(clause string) string { return "C18|" + name + "|" + clause }

	// draw one input, record the case, clone it under Guard.
	setup := func(rt *rapid.T, rec *kit.Rec, alias bool, clause string) (orig, cl *T, ov, cv reflect.Value, desc string) {
		g := newCtx(rt, alias)
		orig, cl = new(T), new(T)
		ov, cv = reflect.ValueOf(orig).Elem(), reflect.ValueOf(cl).Elem()
		g.fill(ov, 0)
		desc = describe(ov)
		nt := false
		if td == 0 {
			nt = !ov.IsZero()
		} else {
			nt = refDepth(ov) >= need
		}
		rec.Case(nt, desc)
		feats := make([]string, 0, len(g.feat))
		for f := range g.feat {
			feats = append(feats, f)
		}
		sort.Strings(feats)
		for _, f := range feats {
			rec.Label(f)
		}
		if reachOf(ov).aliased {
			rec.Label("internally-aliased")
		}
		rec.Guard(rt, sig(clause), func() { *cl = inst.Clone(*orig) })
		return
	}

	return entry{name: name, run: func(t *testing.T) {
		kit.Check(t, name+"/equal",
			"input of the instance's type drawn by reflection (nil / empty / spare-capacity / window slices, nil / empty maps, nil pointers, internally aliased positions); clone must print the same canonical form (nil ≅ empty) as the original; "+ntRule,
			kit.Opt{}, func(rt *rapid.T, rec *kit.Rec) {
				_, _, ov, cv, desc := setup(rt, rec, true, "equal")
				if a, b := canonV(ov), canonV(cv); a != b {
					rec.Failf(rt, sig("equal"), "clone differs from original\n input: %s\n original: %s\n clone:    %s", desc, a, b)
				}
			})
		kit.Check(t, name+"/disjoint",
			"same inputs as equal (incl. internally aliased); the memory of all pointer targets and backing arrays (cap > 0, up to cap) and the Go map identities reachable from the original must not meet those reachable from the clone; "+ntRule,
			kit.Opt{}, func(rt *rapid.T, rec *kit.Rec) {
				orig, cl, ov, cv, desc := setup(rt, rec, true, "disjoint")
				ro, rc := reachOf(ov), reachOf(cv)
				if s := shared(ro, rc); s != "" {
					rec.Failf(rt, sig("disjoint"), "clone shares mutable storage with the original: %s\n input: %s", s, desc)
				}
				keep(orig, cl)
			})
		kit.Check(t, name+"/mut-clone",
			"alias-free inputs; canonical snapshot of the original, every scalar behind every pointer / slice element (up to cap) / map value of the CLONE changed once, nil pointers in it replaced, one key added per map; the original must still print the snapshot; "+ntRule,
			kit.Opt{}, func(rt *rapid.T, rec *kit.Rec) {
				_, _, ov, cv, desc := setup(rt, rec, false, "mut-clone")
				before := canonV(ov)
				n := mutate(cv)
				if n > 0 {
					rec.Label("mutations>0")
				}
				if after := canonV(ov); after != before {
					rec.Failf(rt, sig("mut-clone"), "mutating the clone changed the original\n input: %s\n original before: %s\n original after:  %s", desc, before, after)
				}
			})
		kit.Check(t, name+"/mut-orig",
			"alias-free inputs; canonical snapshot of the clone, every scalar behind every pointer / slice element (up to cap) / map value of the ORIGINAL changed once, nil pointers in it replaced, one key added per map; the clone must still print the snapshot; "+ntRule,
			kit.Opt{}, func(rt *rapid.T, rec *kit.Rec) {
				_, _, ov, cv, desc := setup(rt, rec, false, "mut-orig")
				before := canonV(cv)
				n := mutate(ov)
				if n > 0 {
					rec.Label("mutations>0")
				}
				if after := canonV(cv); after != before {
					rec.Failf(rt, sig("mut-orig"), "mutating the original changed the clone\n input: %s\n clone before: %s\n clone after:  %s", desc, before, after)
				}
			})
		kit.Check(t, name+"/concurrent",
			"same inputs as equal; the instance clones the SAME input from G in 2..8 goroutines released together, 50 times each (reading only); every clone must print the original's canonical form; real goroutines: a miss proves nothing, a mismatch is a violation; non-trivial as for equal and G >= 4; "+ntRule,
			kit.Opt{Weight: 0.1}, func(rt *rapid.T, rec *kit.Rec) {
				orig, _, ov, _, desc := setup(rt, rec, true, "concurrent")
				G := rapid.IntRange(2, 8).Draw(rt, "G")
				want := canonV(ov)
				bad := make([]string, G)
				start := make(chan struct{})
				var wg sync.WaitGroup
				for g := 0; g < G; g++ {
					wg.Add(1)
					go func(g int) {
						defer wg.Done()
						defer func() {
							if r := recover(); r != nil && bad[g] == "" {
								bad[g] = fmt.Sprintf("goroutine %d panicked: %v", g, r)
							}
						}()
						<-start
						for k := 0; k < 50; k++ {
							c := inst.Clone(*orig)
							if got := canonV(reflect.ValueOf(&c).Elem()); got != want && bad[g] == "" {
								bad[g] = fmt.Sprintf("goroutine %d of %d cloned %s into %s while other goroutines were cloning the same value", g, G, want, got)
							}
						}
					}(g)
				}
				close(start)
				wg.Wait()
				for _, m := range bad {
					if m != "" {
						rec.Failf(rt, sig("concurrent"), "%s\n input: %s", m, desc)
					}
				}
			})
	}}
}

//go:noinline
func keep(...any) {}

// ---- instance building blocks ------------------------------------------------------------

var (
	gInt = clone.Given[int]()
	gStr = clone.Given[string]()
)

// ptr / ptrCall: clone.Ptr takes a lazy.Eval of the element instance.
func ptr[T any](c fp.Clone[T]) fp.Clone[*T] { return clone.Ptr(lazy.Done(c)) }
func ptrCall[T any](c fp.Clone[T]) fp.Clone[*T] {
	return clone.Ptr(lazy.Call(func() fp.Clone[T] { return c }))
}
func sl[T any](c fp.Clone[T]) fp.Clone[[]T]          { return clone.Slice(c) }
func sq[T any](c fp.Clone[T]) fp.Clone[fp.Seq[T]]    { return clone.Seq(c) }
func ms[V any](c fp.Clone[V]) fp.Clone[map[string]V] { return clone.GoMap(gStr, c) }
func mi[V any](c fp.Clone[V]) fp.Clone[map[int]V]    { return clone.GoMap(gInt, c) }
func op[T any](c fp.Clone[T]) fp.Clone[fp.Option[T]] { return clone.Option(c) }
func hc[H any, T hlist.HList](h fp.Clone[H], t fp.Clone[T]) fp.Clone[hlist.Cons[H, T]] {
	return clone.HCons(h, t)
}

// valStruct: a struct of value fields only (legal argument of clone.Given).
type valStruct struct {
	a string
	b int
	C [2]int8
	d bool
}

type valKey struct {
	X int
	Y string
}

// refStruct: derived the way gombok derives it — Generic over a tuple of the fields.
type refStruct struct {
	P *int
	S []int
	M map[string]int
	V valStruct
}

func cloneRefStruct() fp.Clone[refStruct] {
	return clone.Generic(
		as.Generic("c18.refStruct", "Struct",
			func(v refStruct) fp.Tuple4[*int, []int, map[string]int, valStruct] {
				return fp.Tuple4[*int, []int, map[string]int, valStruct]{I1: v.P, I2: v.S, I3: v.M, I4: v.V}
			},
			func(t fp.Tuple4[*int, []int, map[string]int, valStruct]) refStruct {
				return refStruct{P: t.I1, S: t.I2, M: t.I3, V: t.I4}
			}),
		clone.Tuple4(ptrCall(gInt), sl(gInt), ms(gInt), clone.Given[valStruct]()),
	)
}

// hlStruct: unexported fields, Generic over an HList representation.
type hlStruct struct {
	s []string
	q []*int
	m map[int][]int
}

type hlRepr = hlist.Cons[[]string, hlist.Cons[[]*int, hlist.Cons[map[int][]int, hlist.Nil]]]

func cloneHlStruct() fp.Clone[hlStruct] {
	return clone.Generic(
		as.Generic("c18.hlStruct", "Struct",
			func(v hlStruct) hlRepr {
				return hlist.Concat(v.s, hlist.Concat(v.q, hlist.Concat(v.m, hlist.Empty())))
			},
			func(r hlRepr) hlStruct {
				t1 := hlist.Tail(r)
				t2 := hlist.Tail(t1)
				return hlStruct{s: hlist.Head(r), q: hlist.Head(t1), m: hlist.Head(t2)}
			}),
		hc(sl(gStr), hc(sl(ptr(gInt)), hc(mi(sl(gInt)), clone.HNil))),
	)
}

// ptrSeq: named slice type, Generic of kind NewType.
type ptrSeq []*int

func clonePtrSeq() fp.Clone[ptrSeq] {
	return clone.Generic(
		as.Generic("c18.ptrSeq", "NewType",
			func(v ptrSeq) []*int { return []*int(v) },
			func(v []*int) ptrSeq { return ptrSeq(v) }),
		sl(ptr(gInt)),
	)
}

// outer: Generic instances nested in one another.
type outer struct {
	In []refStruct
	O  fp.Option[ptrSeq]
	H  map[string]hlStruct
}

func cloneOuter() fp.Clone[outer] {
	return clone.Generic(
		as.Generic("c18.outer", "Struct",
			func(v outer) fp.Tuple3[[]refStruct, fp.Option[ptrSeq], map[string]hlStruct] {
				return fp.Tuple3[[]refStruct, fp.Option[ptrSeq], map[string]hlStruct]{I1: v.In, I2: v.O, I3: v.H}
			},
			func(t fp.Tuple3[[]refStruct, fp.Option[ptrSeq], map[string]hlStruct]) outer {
				return outer{In: t.I1, O: t.I2, H: t.I3}
			}),
		clone.Tuple3(sl(cloneRefStruct()), op(clonePtrSeq()), ms(cloneHlStruct())),
	)
}

func catalogue() []entry {
	return []entry{
		// reference-free types: Given
		mk("clone.Given[int]", gInt),
		mk("clone.Given[string]", gStr),
		mk("clone.Given[valStruct]", clone.Given[valStruct]()),
		mk("clone.HNil", clone.HNil),

		// one combinator
		mk("clone.Ptr(Given[int])", ptr(gInt)),
		mk("clone.Ptr(lazy.Call(Given[valStruct]))", ptrCall(clone.Given[valStruct]())),
		mk("clone.Slice(Given[int])", sl(gInt)),
		mk("clone.Slice(Given[valStruct])", sl(clone.Given[valStruct]())),
		mk("clone.Seq(Given[int])", sq(gInt)),
		mk("clone.GoMap[string](Given[int])", ms(gInt)),
		mk("clone.GoMap[int](Given[string])", mi(gStr)),
		mk("clone.GoMap[valKey](Given[int])", clone.GoMap(clone.Given[valKey](), gInt)),
		// keys with storage behind them: the key instance has to be applied as well
		mk("clone.GoMap[*int](Ptr(Given[int]);Given[int])", clone.GoMap(ptr(gInt), gInt)),
		mk("clone.GoMap[*int](Ptr(Given[int]);Slice(Given[int]))", clone.GoMap(ptr(gInt), sl(gInt))),
		mk("clone.GoMap[Tuple2[string;*int]](Tuple2(Given[string];Ptr(Given[int]));Given[string])", clone.GoMap(clone.Tuple2(gStr, ptr(gInt)), gStr)),
		mk("clone.Slice(GoMap[*int](Ptr(Given[int]);Ptr(Given[int])))", sl(clone.GoMap(ptr(gInt), ptr(gInt)))),
		mk("clone.Option(Given[int])", op(gInt)),
		mk("clone.HCons(Given[int];HNil)", hc(gInt, clone.HNil)),
		mk("clone.HCons(Slice(Given[int]);HNil)", hc(sl(gInt), clone.HNil)),

		// two combinators
		mk("clone.Ptr(Slice(Given[int]))", ptr(sl(gInt))),
		mk("clone.Ptr(lazy.Call(Slice(Given[int])))", ptrCall(sl(gInt))),
		mk("clone.Ptr(GoMap[string](Given[int]))", ptr(ms(gInt))),
		mk("clone.Ptr(Ptr(Given[int]))", ptr(ptr(gInt))),
		mk("clone.Ptr(Option(Given[int]))", ptr(op(gInt))),
		mk("clone.Ptr(Seq(Given[int]))", ptr(sq(gInt))),
		mk("clone.Slice(Ptr(Given[int]))", sl(ptr(gInt))),
		mk("clone.Slice(Slice(Given[int]))", sl(sl(gInt))),
		mk("clone.Slice(GoMap[string](Given[int]))", sl(ms(gInt))),
		mk("clone.Slice(Option(Given[int]))", sl(op(gInt))),
		mk("clone.Slice(Seq(Given[string]))", sl(sq(gStr))),
		mk("clone.Seq(Ptr(Given[int]))", sq(ptr(gInt))),
		mk("clone.Seq(Seq(Given[int]))", sq(sq(gInt))),
		mk("clone.Seq(Slice(Given[int]))", sq(sl(gInt))),
		mk("clone.Seq(GoMap[int](Given[int]))", sq(mi(gInt))),
		mk("clone.GoMap[string](Slice(Given[int]))", ms(sl(gInt))),
		mk("clone.GoMap[string](Ptr(Given[int]))", ms(ptr(gInt))),
		mk("clone.GoMap[int](GoMap[string](Given[int]))", mi(ms(gInt))),
		mk("clone.GoMap[int](Seq(Given[int]))", mi(sq(gInt))),
		mk("clone.GoMap[string](Option(Given[int]))", ms(op(gInt))),
		mk("clone.Option(Ptr(Given[int]))", op(ptr(gInt))),
		mk("clone.Option(Slice(Given[int]))", op(sl(gInt))),
		mk("clone.Option(GoMap[string](Given[int]))", op(ms(gInt))),
		mk("clone.Option(Seq(Given[int]))", op(sq(gInt))),
		mk("clone.Option(Option(Slice(Given[int])))", op(op(sl(gInt)))),

		// three combinators
		mk("clone.Slice(Slice(Ptr(Given[int])))", sl(sl(ptr(gInt)))),
		mk("clone.Slice(Ptr(Slice(Given[int])))", sl(ptr(sl(gInt)))),
		mk("clone.Ptr(Slice(Ptr(Given[int])))", ptr(sl(ptr(gInt)))),
		mk("clone.GoMap[string](Slice(Ptr(Given[int])))", ms(sl(ptr(gInt)))),
		mk("clone.GoMap[string](Ptr(Slice(Given[int])))", ms(ptr(sl(gInt)))),
		mk("clone.Option(Slice(Ptr(Given[int])))", op(sl(ptr(gInt)))),
		mk("clone.Option(Ptr(Slice(Given[int])))", op(ptr(sl(gInt)))),
		mk("clone.Slice(Option(Slice(Given[int])))", sl(op(sl(gInt)))),
		mk("clone.Seq(GoMap[string](Slice(Given[int])))", sq(ms(sl(gInt)))),
		mk("clone.Slice(GoMap[int](Ptr(Given[int])))", sl(mi(ptr(gInt)))),

		// four and more
		mk("clone.Slice(GoMap[int](Slice(Ptr(Given[int]))))", sl(mi(sl(ptr(gInt))))),
		mk("clone.Seq(Option(GoMap[string](Slice(Given[int]))))", sq(op(ms(sl(gInt))))),
		mk("clone.GoMap[string](Slice(GoMap[int](Slice(Given[int]))))", ms(sl(mi(sl(gInt))))),
		mk("clone.Option(Slice(Slice(Ptr(Given[int]))))", op(sl(sl(ptr(gInt))))),
		mk("clone.Ptr(Slice(Ptr(GoMap[int](Slice(Given[int])))))", ptr(sl(ptr(mi(sl(gInt)))))),
		mk("clone.Slice(Ptr(GoMap[string](Ptr(Given[int]))))", sl(ptr(ms(ptr(gInt))))),

		// tuples with mixed components (every arity with []int components: tuples_gen_test.go)
		mk("clone.Tuple2(Ptr(Given[int]);Slice(Given[int]))", clone.Tuple2(ptr(gInt), sl(gInt))),
		mk("clone.Tuple3(GoMap[string](Slice(Given[int]));Option(Slice(Given[int]));Slice(Ptr(Given[int])))", clone.Tuple3(ms(sl(gInt)), op(sl(gInt)), sl(ptr(gInt)))),
		mk("clone.Tuple2(Ptr(Slice(Given[int]));Given[int])", clone.Tuple2(ptr(sl(gInt)), gInt)),
		mk("clone.Slice(Tuple2(Slice(Given[int]);Ptr(Given[int])))", sl(clone.Tuple2(sl(gInt), ptr(gInt)))),
		mk("clone.GoMap[string](Tuple2(Given[string];Slice(Given[int])))", ms(clone.Tuple2(gStr, sl(gInt)))),
		mk("clone.Option(Tuple2(Slice(Given[int]);GoMap[int](Given[int])))", op(clone.Tuple2(sl(gInt), mi(gInt)))),
		mk("clone.Tuple2(Tuple2(Slice(Given[int]);Slice(Given[int]));Slice(Given[int]))", clone.Tuple2(clone.Tuple2(sl(gInt), sl(gInt)), sl(gInt))),

		// HCons / HNil chains
		mk("clone.HCons(Slice(Given[int]);HCons(Ptr(Given[int]);HCons(GoMap[string](Given[int]);HNil)))", hc(sl(gInt), hc(ptr(gInt), hc(ms(gInt), clone.HNil)))),
		mk("clone.HCons(Slice(Slice(Given[int]));HCons(Given[string];HNil))", hc(sl(sl(gInt)), hc(gStr, clone.HNil))),
		mk("clone.HCons(Given[int];HCons(Slice(Given[int]);HCons(Slice(Given[int]);HCons(Slice(Given[int]);HNil))))", hc(gInt, hc(sl(gInt), hc(sl(gInt), hc(sl(gInt), clone.HNil))))),
		mk("clone.Slice(HCons(Slice(Given[int]);HCons(Option(Ptr(Given[int]));HNil)))", sl(hc(sl(gInt), hc(op(ptr(gInt)), clone.HNil)))),
		mk("clone.HCons(Ptr(Slice(Given[int]));HNil)", hc(ptr(sl(gInt)), clone.HNil)),

		// Generic
		mk("clone.Generic(refStruct;Tuple4(Ptr;Slice;GoMap;Given))", cloneRefStruct()),
		mk("clone.Generic(hlStruct;HCons(Slice;HCons(Slice(Ptr);HCons(GoMap[int](Slice);HNil))))", cloneHlStruct()),
		mk("clone.Generic(ptrSeq;Slice(Ptr(Given[int])))", clonePtrSeq()),
		mk("clone.Slice(Generic(refStruct))", sl(cloneRefStruct())),
		mk("clone.GoMap[string](Generic(ptrSeq))", ms(clonePtrSeq())),
		mk("clone.Generic(outer;Tuple3(Slice(Generic(refStruct));Option(Generic(ptrSeq));GoMap[string](Generic(hlStruct))))", cloneOuter()),
	}
}

func runAll(t *testing.T, es []entry) {
	seen := map[string]bool{}
	for _, e := range es {
		if seen[e.name] || strings.ContainsAny(e.name, ",/ ") {
			t.Fatalf("c18 harness bug: bad or duplicate catalogue name %q", e.name)
		}
		seen[e.name] = true
		e.run(t)
	}
}

func TestCatalogue(t *testing.T) { runAll(t, catalogue()) }

// TestTuples: every arity of clone.TupleN that exists, component type []int at
// every position (tuples_gen_test.go, generated by ./gen).
func TestTuples(t *testing.T) { runAll(t, tupleEntries()) }
