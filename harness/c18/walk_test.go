package c18

// Reflection toolkit of the C18 check. Everything here is written without the
// library under test: an alias walker (reach), a canonical printer used as
// structural equality and as deep snapshot (canon / describe), a deep mutator
// (mutate) and a value generator driven by rapid draws (gctx.fill).
//
// Invariant of all walkers: every reflect.Value handed to a recursive call is
// addressable and free of the read-only flag, so unexported fields
// (fp.Option.present/v, hlist.Cons.head/tail, own test structs) are read and
// written like exported ones. Top-level values are therefore always passed as
// reflect.ValueOf(&x).Elem().

import (
	"fmt"
	"reflect"
	"sort"
	"strconv"
	"strings"
	"unsafe"

	"pgregory.net/rapid"

	"verifharness/kit"
)

// clean strips the read-only flag reflect puts on values obtained through
// unexported struct fields. v must be addressable (see invariant above).
func clean(v reflect.Value) reflect.Value {
	if v.CanSet() {
		return v
	}
	if !v.CanAddr() {
		panic("c18 harness bug: value of type " + v.Type().String() + " is not addressable")
	}
	return reflect.NewAt(v.Type(), unsafe.Pointer(v.UnsafeAddr())).Elem()
}

// addr returns an addressable, settable copy of a (clean) non-addressable value,
// e.g. a map key or a map value. The copy is shallow: references are preserved.
func addr(v reflect.Value) reflect.Value {
	if v.CanAddr() {
		return clean(v)
	}
	c := reflect.New(v.Type()).Elem()
	c.Set(v)
	return c
}

// top makes an addressable shallow copy of an arbitrary value.
func top(v any) reflect.Value {
	rv := reflect.ValueOf(v)
	if !rv.IsValid() {
		return rv
	}
	return addr(rv)
}

// sortedKeys returns the keys of a (clean) map value ordered by canonical form.
func sortedKeys(m reflect.Value) []reflect.Value {
	type kv struct {
		s string
		k reflect.Value
	}
	ks := make([]kv, 0, m.Len())
	it := m.MapRange()
	for it.Next() {
		k := addr(it.Key())
		s := canonV(k)
		if typeDepth(m.Type().Key()) > 0 {
			// keys holding pointers: two distinct keys can print alike (equal pointees), the value breaks the tie
			s += "\x00" + canonV(addr(it.Value()))
		}
		ks = append(ks, kv{s, k})
	}
	sort.Slice(ks, func(i, j int) bool { return ks[i].s < ks[j].s })
	out := make([]reflect.Value, len(ks))
	for i := range ks {
		out[i] = ks[i].k
	}
	return out
}

// ---- reach: alias walker ---------------------------------------------------------

type region struct {
	lo, hi uintptr // [lo,hi) bytes of mutable storage
	kind   string  // "pointer target" | "backing array"
	path   string
}

type reachSet struct {
	ptrs    map[uintptr]string // pointer target address -> first path
	arrays  map[uintptr]string // slice data pointer (cap > 0) -> first path
	maps    map[uintptr]string // Go map identity -> first path
	regions []region
	aliased bool // some storage is reached through two different positions
}

func reachOf(v reflect.Value) *reachSet {
	r := &reachSet{ptrs: map[uintptr]string{}, arrays: map[uintptr]string{}, maps: map[uintptr]string{}}
	if v.IsValid() {
		r.walk(v, "")
	}
	return r
}

// reach collects every pointer target address, every slice backing-array
// address (data pointer, only when cap > 0) and every Go map identity reachable
// from v, through exported and unexported struct fields.
func reach(v any) (ptrs, arrays, maps map[uintptr]struct{}) {
	r := reachOf(top(v))
	conv := func(m map[uintptr]string) map[uintptr]struct{} {
		o := make(map[uintptr]struct{}, len(m))
		for k := range m {
			o[k] = struct{}{}
		}
		return o
	}
	return conv(r.ptrs), conv(r.arrays), conv(r.maps)
}

func (r *reachSet) addRegion(lo, hi uintptr, kind, path string) {
	for _, g := range r.regions {
		if lo < g.hi && g.lo < hi {
			r.aliased = true
			break
		}
	}
	r.regions = append(r.regions, region{lo, hi, kind, path})
}

func (r *reachSet) walk(v reflect.Value, path string) {
	switch v.Kind() {
	case reflect.Pointer:
		if v.IsNil() {
			return
		}
		sz := v.Type().Elem().Size()
		if sz == 0 {
			return // all zero-size objects may share one address; nothing mutable behind it
		}
		p := v.Pointer()
		if _, dup := r.ptrs[p]; dup {
			r.aliased = true
			return
		}
		r.ptrs[p] = path
		r.addRegion(p, p+sz, "pointer target", path)
		r.walk(v.Elem(), path+".*")
	case reflect.Slice:
		if v.IsNil() {
			return
		}
		sz := v.Type().Elem().Size()
		c := v.Cap()
		if c == 0 || sz == 0 {
			return
		}
		d := v.Pointer()
		if _, dup := r.arrays[d]; !dup {
			r.arrays[d] = path
		}
		r.addRegion(d, d+uintptr(c)*sz, "backing array", path)
		// elements up to cap: s[:cap] is a legitimate path to them
		full := v.Slice(0, c)
		for i := 0; i < c; i++ {
			r.walk(clean(full.Index(i)), path+"["+strconv.Itoa(i)+"]")
		}
	case reflect.Map:
		if v.IsNil() {
			return
		}
		id := v.Pointer()
		if _, dup := r.maps[id]; dup {
			r.aliased = true
			return
		}
		r.maps[id] = path
		for _, k := range sortedKeys(v) {
			ks := canonV(k)
			r.walk(k, path+".key("+ks+")")
			r.walk(addr(v.MapIndex(k)), path+"["+ks+"]")
		}
	case reflect.Struct:
		for i := 0; i < v.NumField(); i++ {
			r.walk(clean(v.Field(i)), path+"."+v.Type().Field(i).Name)
		}
	case reflect.Array:
		for i := 0; i < v.Len(); i++ {
			r.walk(clean(v.Index(i)), path+"["+strconv.Itoa(i)+"]")
		}
	case reflect.Interface:
		if !v.IsNil() {
			r.walk(addr(v.Elem()), path+".(iface)")
		}
	}
}

// shared reports storage reachable from both a and b ("" if none).
func shared(a, b *reachSet) string {
	for _, x := range a.regions {
		for _, y := range b.regions {
			if x.lo < y.hi && y.lo < x.hi {
				return fmt.Sprintf("%s at original%s and %s at clone%s occupy the same memory", x.kind, orRoot(x.path), y.kind, orRoot(y.path))
			}
		}
	}
	ids := make([]uintptr, 0, len(a.maps))
	for id := range a.maps {
		ids = append(ids, id)
	}
	sort.Slice(ids, func(i, j int) bool { return a.maps[ids[i]] < a.maps[ids[j]] })
	for _, id := range ids {
		if p, ok := b.maps[id]; ok {
			return fmt.Sprintf("Go map at original%s is the very same map as at clone%s", orRoot(a.maps[id]), orRoot(p))
		}
	}
	return ""
}

func orRoot(p string) string {
	if p == "" {
		return "(root)"
	}
	return p
}

// ---- canonical printer: structural equality, snapshot, case descriptor -----------

type printer struct {
	sb  strings.Builder
	ids bool // descriptor mode: nil vs empty, spare capacity and aliasing are shown
	seq int
	id  map[[2]uintptr]int
}

// canonV is the canonical form used as structural equality and as deep,
// library-independent snapshot: nil and empty slices / maps print alike,
// capacity and addresses are not part of it, map entries are sorted.
func canonV(v reflect.Value) string {
	p := &printer{}
	p.print(v)
	return p.sb.String()
}

// describe is the case descriptor: canonical form of the input plus what
// distinguishes inputs but not structure (nil vs empty, spare capacity, which
// positions alias one another by ordinal of first visit). No addresses.
func describe(v reflect.Value) string {
	p := &printer{ids: true, id: map[[2]uintptr]int{}}
	p.print(v)
	return p.sb.String()
}

func (p *printer) ordinal(kind uintptr, a uintptr) (int, bool) {
	k := [2]uintptr{kind, a}
	if n, ok := p.id[k]; ok {
		return n, true
	}
	p.seq++
	p.id[k] = p.seq
	return p.seq, false
}

func (p *printer) print(v reflect.Value) {
	switch v.Kind() {
	case reflect.Bool:
		p.sb.WriteString(strconv.FormatBool(v.Bool()))
	case reflect.Int, reflect.Int8, reflect.Int16, reflect.Int32, reflect.Int64:
		p.sb.WriteString(strconv.FormatInt(v.Int(), 10))
	case reflect.Uint, reflect.Uint8, reflect.Uint16, reflect.Uint32, reflect.Uint64, reflect.Uintptr:
		p.sb.WriteString(strconv.FormatUint(v.Uint(), 10) + "u")
	case reflect.Float32, reflect.Float64:
		p.sb.WriteString(strconv.FormatFloat(v.Float(), 'g', -1, 64))
	case reflect.String:
		p.sb.WriteString(strconv.Quote(v.String()))
	case reflect.Pointer:
		if v.IsNil() {
			p.sb.WriteString("nil")
			return
		}
		if p.ids && v.Type().Elem().Size() > 0 {
			n, dup := p.ordinal(1, v.Pointer())
			p.sb.WriteString("@" + strconv.Itoa(n))
			if dup {
				p.sb.WriteString("^")
				return
			}
		}
		p.sb.WriteString("&")
		p.print(v.Elem())
	case reflect.Slice:
		if p.ids {
			if v.IsNil() {
				p.sb.WriteString("nil[]")
				return
			}
			if v.Cap() > 0 && v.Type().Elem().Size() > 0 {
				n, _ := p.ordinal(2, v.Pointer())
				p.sb.WriteString("@" + strconv.Itoa(n))
			}
		}
		p.sb.WriteString("[")
		for i := 0; i < v.Len(); i++ {
			if i > 0 {
				p.sb.WriteString(" ")
			}
			p.print(clean(v.Index(i)))
		}
		p.sb.WriteString("]")
		if p.ids && v.Cap() > v.Len() {
			p.sb.WriteString("+" + strconv.Itoa(v.Cap()-v.Len()))
		}
	case reflect.Map:
		if p.ids {
			if v.IsNil() {
				p.sb.WriteString("nilmap")
				return
			}
			n, dup := p.ordinal(3, v.Pointer())
			p.sb.WriteString("@" + strconv.Itoa(n))
			if dup {
				p.sb.WriteString("^")
				return
			}
		}
		p.sb.WriteString("map{")
		if !v.IsNil() {
			for i, k := range sortedKeys(v) {
				if i > 0 {
					p.sb.WriteString(" ")
				}
				p.print(k)
				p.sb.WriteString(":")
				p.print(addr(v.MapIndex(k)))
			}
		}
		p.sb.WriteString("}")
	case reflect.Struct:
		p.sb.WriteString("{")
		for i := 0; i < v.NumField(); i++ {
			if i > 0 {
				p.sb.WriteString(";")
			}
			p.print(clean(v.Field(i)))
		}
		p.sb.WriteString("}")
	case reflect.Array:
		p.sb.WriteString("<")
		for i := 0; i < v.Len(); i++ {
			if i > 0 {
				p.sb.WriteString(" ")
			}
			p.print(clean(v.Index(i)))
		}
		p.sb.WriteString(">")
	case reflect.Interface:
		if v.IsNil() {
			p.sb.WriteString("nil-iface")
			return
		}
		p.sb.WriteString(v.Elem().Type().String() + ":")
		p.print(addr(v.Elem()))
	default:
		panic("c18 harness bug: printer: unsupported kind " + v.Kind().String())
	}
}

// ---- reference nesting (non-trivial rule) ----------------------------------------

// refDepth is the longest chain of non-nil pointers / non-empty slices /
// non-empty maps in the value.
func refDepth(v reflect.Value) int {
	switch v.Kind() {
	case reflect.Pointer:
		if v.IsNil() {
			return 0
		}
		return 1 + refDepth(v.Elem())
	case reflect.Slice, reflect.Array:
		if v.Len() == 0 {
			return 0
		}
		m := 0
		for i := 0; i < v.Len(); i++ {
			if d := refDepth(clean(v.Index(i))); d > m {
				m = d
			}
		}
		if v.Kind() == reflect.Array {
			return m
		}
		return 1 + m
	case reflect.Map:
		if v.Len() == 0 {
			return 0
		}
		m := 0
		for _, k := range sortedKeys(v) {
			if d := refDepth(addr(v.MapIndex(k))); d > m {
				m = d
			}
		}
		return 1 + m
	case reflect.Struct:
		m := 0
		for i := 0; i < v.NumField(); i++ {
			if d := refDepth(clean(v.Field(i))); d > m {
				m = d
			}
		}
		return m
	}
	return 0
}

// typeDepth is the largest refDepth a value of type t can have.
func typeDepth(t reflect.Type) int {
	switch t.Kind() {
	case reflect.Pointer, reflect.Slice:
		return 1 + typeDepth(t.Elem())
	case reflect.Array:
		return typeDepth(t.Elem())
	case reflect.Map:
		return 1 + typeDepth(t.Elem())
	case reflect.Struct:
		m := 0
		for i := 0; i < t.NumField(); i++ {
			if d := typeDepth(t.Field(i).Type); d > m {
				m = d
			}
		}
		return m
	}
	return 0
}

// ---- deep mutator ------------------------------------------------------------------

// mutate changes every piece of storage reachable from v exactly once: flips a
// bit of every integer, toggles every bool, extends every string at the end of
// every pointer chain / slice element (up to cap) / map value, turns nil
// pointers stored in reachable storage into fresh non-nil ones and adds one
// fresh key to every map. It returns the number of elementary changes.
func mutate(v reflect.Value) int {
	m := &mutator{leaf: map[uintptr]bool{}, ref: map[uintptr]bool{}}
	m.mut(v)
	return m.n
}

type mutator struct {
	leaf map[uintptr]bool // addresses of scalars already changed
	ref  map[uintptr]bool // pointer targets / maps already entered
	n    int
}

func (m *mutator) once(v reflect.Value) bool {
	a := v.UnsafeAddr()
	if m.leaf[a] {
		return false
	}
	m.leaf[a] = true
	m.n++
	return true
}

func (m *mutator) mut(v reflect.Value) {
	switch v.Kind() {
	case reflect.Bool:
		if m.once(v) {
			v.SetBool(!v.Bool())
		}
	case reflect.Int, reflect.Int8, reflect.Int16, reflect.Int32, reflect.Int64:
		if m.once(v) {
			v.SetInt(v.Int() ^ 0x40)
		}
	case reflect.Uint, reflect.Uint8, reflect.Uint16, reflect.Uint32, reflect.Uint64, reflect.Uintptr:
		if m.once(v) {
			v.SetUint(v.Uint() ^ 0x40)
		}
	case reflect.Float32, reflect.Float64:
		if m.once(v) {
			v.SetFloat(v.Float() + 1)
		}
	case reflect.String:
		if m.once(v) {
			v.SetString(v.String() + "~")
		}
	case reflect.Pointer:
		if v.IsNil() {
			if m.once(v) {
				v.Set(reflect.New(v.Type().Elem()))
			}
			return
		}
		if v.Type().Elem().Size() == 0 {
			return
		}
		p := v.Pointer()
		if m.ref[p] {
			return
		}
		m.ref[p] = true
		m.mut(v.Elem())
	case reflect.Slice:
		if v.IsNil() || v.Cap() == 0 {
			return
		}
		full := v.Slice(0, v.Cap())
		for i := 0; i < full.Len(); i++ {
			m.mut(clean(full.Index(i)))
		}
	case reflect.Map:
		if v.IsNil() {
			return
		}
		id := v.Pointer()
		if m.ref[id] {
			return
		}
		m.ref[id] = true
		keys := sortedKeys(v)
		for _, k := range keys {
			tmp := addr(v.MapIndex(k))
			m.mut(tmp)
			v.SetMapIndex(k, tmp)
		}
		if typeDepth(v.Type().Key()) > 0 {
			// storage behind the keys (pointer keys, keys with pointer components): the key itself stays
			for _, k := range keys {
				m.mutKeyPointees(k)
			}
		}
		// one fresh key
		kt := v.Type().Key()
		nk := reflect.New(kt).Elem()
		switch kt.Kind() {
		case reflect.Int, reflect.Int8, reflect.Int16, reflect.Int32, reflect.Int64:
			for c := int64(100); c < 127; c++ {
				nk.SetInt(c)
				if !v.MapIndex(nk).IsValid() {
					v.SetMapIndex(nk, reflect.Zero(v.Type().Elem()))
					m.n++
					break
				}
			}
		case reflect.String:
			nk.SetString("~fresh")
			if !v.MapIndex(nk).IsValid() {
				v.SetMapIndex(nk, reflect.Zero(v.Type().Elem()))
				m.n++
			}
		}
	case reflect.Struct:
		for i := 0; i < v.NumField(); i++ {
			m.mut(clean(v.Field(i)))
		}
	case reflect.Array:
		for i := 0; i < v.Len(); i++ {
			m.mut(clean(v.Index(i)))
		}
	}
}

// mutKeyPointees changes what the pointers inside a map key point to, never the key.
func (m *mutator) mutKeyPointees(k reflect.Value) {
	switch k.Kind() {
	case reflect.Pointer:
		if !k.IsNil() {
			m.mut(k.Elem())
		}
	case reflect.Struct:
		for i := 0; i < k.NumField(); i++ {
			m.mutKeyPointees(clean(k.Field(i)))
		}
	case reflect.Array:
		for i := 0; i < k.Len(); i++ {
			m.mutKeyPointees(clean(k.Index(i)))
		}
	}
}

// ---- value generator -----------------------------------------------------------------

type gctx struct {
	rt    *rapid.T
	alias bool
	pool  map[reflect.Type][]reflect.Value
	feat  map[string]bool
}

// newCtx: when aliasing is allowed it is switched on for about half of the cases
// (otherwise wide types such as Tuple21 would never be drawn alias-free).
func newCtx(rt *rapid.T, allowAlias bool) *gctx {
	g := &gctx{rt: rt, pool: map[reflect.Type][]reflect.Value{}, feat: map[string]bool{}}
	if allowAlias {
		g.alias = g.draw(0, 1, "aliasing") == 1
	}
	return g
}

func (g *gctx) draw(lo, hi int, label string) int {
	return rapid.IntRange(lo, hi).Draw(g.rt, label)
}

func isOption(t reflect.Type) bool {
	return t.Kind() == reflect.Struct && t.PkgPath() == "github.com/csgura/fp" && strings.HasPrefix(t.Name(), "Option[")
}

// reuse draws whether (and which) earlier reference of type t is placed again.
func (g *gctx) reuse(t reflect.Type) (reflect.Value, bool) {
	if !g.alias || len(g.pool[t]) == 0 {
		return reflect.Value{}, false
	}
	if g.draw(0, 2, "reuse") != 0 {
		return reflect.Value{}, false
	}
	return g.pool[t][g.draw(0, len(g.pool[t])-1, "which")], true
}

// fill sets dst (addressable, clean) to a drawn value of its type.
func (g *gctx) fill(dst reflect.Value, depth int) {
	t := dst.Type()
	maxLen := 3
	if depth >= 2 {
		maxLen = 2
	}
	switch t.Kind() {
	case reflect.Bool:
		dst.SetBool(g.draw(0, 1, "bool") == 1)
	case reflect.Int, reflect.Int8, reflect.Int16, reflect.Int32, reflect.Int64:
		dst.SetInt(int64(g.draw(-3, 8, "int")))
	case reflect.Uint, reflect.Uint8, reflect.Uint16, reflect.Uint32, reflect.Uint64:
		dst.SetUint(uint64(g.draw(0, 8, "uint")))
	case reflect.Float32, reflect.Float64:
		dst.SetFloat(float64(g.draw(-3, 8, "float")) / 2)
	case reflect.String:
		dst.SetString(kit.SmallString().Draw(g.rt, "str"))
	case reflect.Pointer:
		if p, ok := g.reuse(t); ok {
			g.feat["alias-ptr"] = true
			dst.Set(p)
			return
		}
		if g.draw(0, 3, "ptr") == 0 {
			g.feat["nil-ptr"] = true
			dst.SetZero()
			return
		}
		p := reflect.New(t.Elem())
		g.fill(p.Elem(), depth+1)
		dst.Set(p)
		g.pool[t] = append(g.pool[t], p)
	case reflect.Slice:
		if s, ok := g.reuse(t); ok {
			switch g.draw(0, 2, "view") {
			case 1:
				s = s.Slice(0, g.draw(0, s.Len(), "prefix"))
				g.feat["alias-slice-prefix"] = true
			case 2:
				if s.Len() > 0 {
					s = s.Slice(g.draw(0, s.Len()-1, "from"), s.Len())
					g.feat["alias-slice-overlap"] = true
				}
			default:
				g.feat["alias-slice-same"] = true
			}
			dst.Set(s)
			return
		}
		var s reflect.Value
		switch g.draw(0, 9, "shape") { // 3,4,7,8,9: exact length
		case 0:
			g.feat["nil-slice"] = true
			dst.SetZero()
			return
		case 1:
			g.feat["empty-slice-cap0"] = true
			s = reflect.MakeSlice(t, 0, 0)
		case 2:
			g.feat["empty-slice-cap>0"] = true
			s = reflect.MakeSlice(t, 0, g.draw(1, 2, "cap"))
		case 5:
			g.feat["slice-spare-cap"] = true
			n := g.draw(1, maxLen, "len")
			extra := g.draw(1, 2, "spare")
			big := reflect.MakeSlice(t, n+extra, n+extra)
			for i := 0; i < n+extra; i++ {
				g.fill(big.Index(i), depth+1)
			}
			s = big.Slice(0, n)
		case 6:
			g.feat["slice-window-of-bigger-array"] = true
			a := g.draw(1, 2, "before")
			n := g.draw(0, maxLen, "len")
			b := g.draw(0, 2, "after")
			big := reflect.MakeSlice(t, a+n+b, a+n+b)
			for i := 0; i < a+n+b; i++ {
				g.fill(big.Index(i), depth+1)
			}
			s = big.Slice(a, a+n)
		default:
			g.feat["slice-exact"] = true
			n := g.draw(1, maxLen, "len")
			s = reflect.MakeSlice(t, n, n)
			for i := 0; i < n; i++ {
				g.fill(s.Index(i), depth+1)
			}
		}
		dst.Set(s)
		if s.Cap() > 0 {
			g.pool[t] = append(g.pool[t], s)
		}
	case reflect.Map:
		if m, ok := g.reuse(t); ok {
			g.feat["alias-map"] = true
			dst.Set(m)
			return
		}
		var m reflect.Value
		switch g.draw(0, 5, "mshape") {
		case 0:
			g.feat["nil-map"] = true
			dst.SetZero()
			return
		case 1:
			g.feat["empty-map"] = true
			m = reflect.MakeMap(t)
		default:
			g.feat["map-entries"] = true
			m = reflect.MakeMap(t)
			n := g.draw(1, maxLen, "entries")
			for i := 0; i < n; i++ {
				k := reflect.New(t.Key()).Elem()
				g.fill(k, depth+1)
				v := reflect.New(t.Elem()).Elem()
				g.fill(v, depth+1)
				m.SetMapIndex(k, v)
			}
		}
		dst.Set(m)
		g.pool[t] = append(g.pool[t], m)
	case reflect.Struct:
		if isOption(t) {
			// fp.Option[T]{present bool; v T}: None is the zero value, Some(v) has present = true
			if t.NumField() != 2 || t.Field(0).Name != "present" || t.Field(1).Name != "v" {
				panic("c18 harness: fp.Option layout changed: " + t.String())
			}
			if g.draw(0, 3, "some") == 0 {
				g.feat["option-none"] = true
				dst.SetZero()
				return
			}
			g.feat["option-some"] = true
			clean(dst.Field(0)).SetBool(true)
			g.fill(clean(dst.Field(1)), depth)
			return
		}
		for i := 0; i < t.NumField(); i++ {
			g.fill(clean(dst.Field(i)), depth)
		}
	case reflect.Array:
		for i := 0; i < dst.Len(); i++ {
			g.fill(clean(dst.Index(i)), depth)
		}
	default:
		panic("c18 harness bug: generator: unsupported kind " + t.Kind().String() + " (" + t.String() + ")")
	}
}
