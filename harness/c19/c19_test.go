package c19

import (
	"fmt"
	"sort"
	"strings"
	"testing"

	"github.com/anishathalye/porcupine"
	"github.com/csgura/fp"
	"github.com/csgura/fp/mutable"
	"pgregory.net/rapid"

	"verifharness/kit"
)

func TestMain(m *testing.M) {
	mutable.VerifSetHooks(kit.HookYield, kit.HookBeforeLock)
	kit.Main(m)
}

const nKeys = 3
const absent = -1

type state [nKeys]int

type opKind int

const (
	opGet opKind = iota
	opSize
	opIter
	opUpdated
	opRemoved
	opUpdatedWith
	opComputeIf
	opComputeIfAbsent
)

var opNames = []string{"Get", "Size", "Iterator", "Updated", "Removed", "UpdatedWith", "ComputeIf", "ComputeIfAbsent"}

// input of one operation (all generated up front)
type opIn struct {
	Kind  opKind
	Key   int
	Keys  []int // Removed
	Val   int   // Updated / value computed by f
	Remap [2]int
	// UpdatedWith: Remap[0] = result for None, Remap[1] = delta for Some(v): Some(v+delta) or None if delta == 0
	PredMod int // ComputeIf: pred(v) = v%PredMod == 0  (recompute when true)
	// the call goes through the fp.Map facade over the same CopyOnWriteMap (fp.MakeMap(m).UpdatedWith(...)):
	// the map is still the one used from several goroutines, whichever way it is addressed
	Facade bool
}

func (o opIn) String() string {
	if o.Facade {
		p := o
		p.Facade = false
		return "fp.Map." + p.String()
	}
	switch o.Kind {
	case opGet, opComputeIfAbsent:
		if o.Kind == opGet {
			return fmt.Sprintf("Get(%d)", o.Key)
		}
		return fmt.Sprintf("ComputeIfAbsent(%d,f=%d)", o.Key, o.Val)
	case opSize:
		return "Size"
	case opIter:
		return "Iterator"
	case opUpdated:
		return fmt.Sprintf("Updated(%d,%d)", o.Key, o.Val)
	case opRemoved:
		return fmt.Sprintf("Removed(%v)", o.Keys)
	case opUpdatedWith:
		return fmt.Sprintf("UpdatedWith(%d,none->%d,some->+%d)", o.Key, o.Remap[0], o.Remap[1])
	default:
		return fmt.Sprintf("ComputeIf(%d,pred=v%%%d==0,f=%d)", o.Key, o.PredMod, o.Val)
	}
}

// remap table function of UpdatedWith
func remapOf(o opIn) func(fp.Option[int]) fp.Option[int] {
	return func(ov fp.Option[int]) fp.Option[int] {
		if ov.IsEmpty() {
			if o.Remap[0] < 0 {
				return fp.None[int]()
			}
			return fp.Some(o.Remap[0])
		}
		if o.Remap[1] == 0 {
			return fp.None[int]()
		}
		return fp.Some(ov.Get() + o.Remap[1])
	}
}

type opOut struct {
	Val   int    // Get / Compute*: value or absent
	Size  int    // Size
	Snap  string // Iterator: sorted "k=v," list
	Panic string
}

func snapOf(s state) string {
	var sb strings.Builder
	for k, v := range s {
		if v != absent {
			fmt.Fprintf(&sb, "%d=%d,", k, v)
		}
	}
	return sb.String()
}

// sequential specification
func step(st interface{}, in interface{}, out interface{}) (bool, interface{}) {
	s := st.(state)
	i := in.(opIn)
	o := out.(opOut)
	switch i.Kind {
	case opGet:
		return o.Val == s[i.Key], s
	case opSize:
		n := 0
		for _, v := range s {
			if v != absent {
				n++
			}
		}
		return o.Size == n, s
	case opIter:
		return o.Snap == snapOf(s), s
	case opUpdated:
		s[i.Key] = i.Val
		return true, s
	case opRemoved:
		for _, k := range i.Keys {
			s[k] = absent
		}
		return true, s
	case opUpdatedWith:
		var ov fp.Option[int]
		if s[i.Key] != absent {
			ov = fp.Some(s[i.Key])
		}
		nv := remapOf(i)(ov)
		if nv.IsDefined() {
			s[i.Key] = nv.Get()
		} else {
			s[i.Key] = absent
		}
		return true, s
	case opComputeIfAbsent:
		if s[i.Key] != absent {
			return o.Val == s[i.Key], s
		}
		s[i.Key] = i.Val
		return o.Val == i.Val, s
	case opComputeIf:
		if s[i.Key] != absent && s[i.Key]%i.PredMod != 0 {
			return o.Val == s[i.Key], s
		}
		s[i.Key] = i.Val
		return o.Val == i.Val, s
	}
	return false, s
}

var model = porcupine.Model{
	Init: func() interface{} { return state{absent, absent, absent} },
	Step: step,
	DescribeOperation: func(in, out interface{}) string {
		return fmt.Sprintf("%v -> %+v", in, out)
	},
}

func drawOp(rt *rapid.T, kinds []opKind, tid, idx int) opIn {
	o := opIn{Kind: rapid.SampledFrom(kinds).Draw(rt, "op"), Key: rapid.IntRange(0, nKeys-1).Draw(rt, "key")}
	// distinct values per operation so that every write is identifiable
	o.Val = 10*(tid*10+idx) + 10 + rapid.IntRange(1, 3).Draw(rt, "v")
	switch o.Kind {
	case opRemoved:
		o.Keys = rapid.SliceOfNDistinct(rapid.IntRange(0, nKeys-1), 1, 2, rapid.ID[int]).Draw(rt, "keys")
		sort.Ints(o.Keys)
	case opUpdatedWith:
		o.Remap = [2]int{rapid.SampledFrom([]int{-1, o.Val}).Draw(rt, "none->"), rapid.IntRange(0, 2).Draw(rt, "some+")}
	case opComputeIf:
		o.PredMod = rapid.IntRange(2, 3).Draw(rt, "predmod")
	}
	if o.Kind <= opUpdatedWith {
		o.Facade = rapid.IntRange(0, 3).Draw(rt, "viaFpMap") == 0
	}
	return o
}

type histOp struct {
	in        opIn
	out       opOut
	call, ret int64
	tid       int
	done      bool
}

// runHistory executes the per-thread programs under the scheduler against one CopyOnWriteMap.
func runHistory(progs [][]opIn, pick func(n int, rs []*kit.Thread) int) (hist []*histOp, res kit.RunResult, trace string) {
	m := &mutable.CopyOnWriteMap[int, int]{}
	s := kit.NewSched()
	s.MaxSteps = 20000
	var clock int64
	for tid, prog := range progs {
		tid, prog := tid, prog
		s.Go(fmt.Sprintf("t%d", tid), func() {
			for _, in := range prog {
				h := &histOp{in: in, tid: tid}
				hist = append(hist, h)
				clock++
				h.call = clock
				func() {
					defer func() {
						if p := recover(); p != nil {
							if kit.IsKilled(p) {
								panic(p)
							}
							// a panic of the operation itself is an observable outcome
							h.out.Panic = fmt.Sprint(p)
						}
					}()
					if in.Facade {
						fm := fp.MakeMap[int, int](m)
						switch in.Kind {
						case opGet:
							h.out.Val = fm.Get(in.Key).OrElse(absent)
						case opSize:
							h.out.Size = fm.Size()
						case opIter:
							it := fm.Iterator()
							var st = state{absent, absent, absent}
							for it.HasNext() {
								k, v := it.Next().Unapply()
								st[k] = v
							}
							h.out.Snap = snapOf(st)
						case opUpdated:
							fm.Updated(in.Key, in.Val)
						case opRemoved:
							fm.Removed(in.Keys...)
						case opUpdatedWith:
							fm.UpdatedWith(in.Key, remapOf(in))
						}
						return
					}
					switch in.Kind {
					case opGet:
						h.out.Val = m.Get(in.Key).OrElse(absent)
					case opSize:
						h.out.Size = m.Size()
					case opIter:
						it := m.Iterator()
						var st = state{absent, absent, absent}
						for it.HasNext() {
							k, v := it.Next().Unapply()
							st[k] = v
						}
						h.out.Snap = snapOf(st)
					case opUpdated:
						m.Updated(in.Key, in.Val)
					case opRemoved:
						m.Removed(in.Keys...)
					case opUpdatedWith:
						m.UpdatedWith(in.Key, remapOf(in))
					case opComputeIfAbsent:
						h.out.Val = m.ComputeIfAbsent(in.Key, func() int {
							kit.HookYield("f")
							return in.Val
						})
					case opComputeIf:
						h.out.Val = m.ComputeIf(in.Key, func(v int) bool {
							return v%in.PredMod == 0
						}, func() int {
							kit.HookYield("f")
							return in.Val
						})
					}
				}()
				clock++
				h.ret = clock
				h.done = true
				kit.HookYield("between-ops")
			}
		})
	}
	res = s.Run(pick)
	trace = strings.Join(s.Trace, " ")
	return
}

func describe(hist []*histOp) string {
	var sb strings.Builder
	for _, h := range hist {
		fmt.Fprintf(&sb, "\n  t%d [%d,%d] %v -> %+v", h.tid, h.call, h.ret, h.in, h.out)
	}
	return sb.String()
}

func overlapOnKeyWithWrite(hist []*histOp) bool {
	isWrite := func(k opKind) bool { return k >= opUpdated }
	touches := func(o opIn, key int) bool {
		switch o.Kind {
		case opSize, opIter:
			return true
		case opRemoved:
			for _, k := range o.Keys {
				if k == key {
					return true
				}
			}
			return false
		}
		return o.Key == key
	}
	for i, a := range hist {
		for _, b := range hist[i+1:] {
			if a.tid == b.tid || a.ret < b.call || b.ret < a.call {
				continue
			}
			if !isWrite(a.in.Kind) && !isWrite(b.in.Kind) {
				continue
			}
			for k := 0; k < nKeys; k++ {
				if touches(a.in, k) && touches(b.in, k) {
					return true
				}
			}
		}
	}
	return false
}

func progsDesc(progs [][]opIn) string {
	var sb strings.Builder
	for i, p := range progs {
		fmt.Fprintf(&sb, "t%d:%v ", i, p)
	}
	return sb.String()
}

func checkHistory(hist []*histOp, res kit.RunResult, trace string, fail func(sig, msg string)) {
	if res.Panic != nil {
		fail("panic", fmt.Sprintf("thread %s panicked: %v\n%s", res.PanicIn, res.Panic, res.PanicInfo))
		return
	}
	if res.Overrun {
		fail("livelock", "operations did not finish within the step bound (deadlock/livelock); trace: "+trace)
		return
	}
	var ops []porcupine.Operation
	for _, h := range hist {
		if !h.done {
			fail("op-not-returned", "an operation never returned"+describe(hist))
			return
		}
		if h.out.Panic != "" {
			fail("op-panic|"+opNames[h.in.Kind], fmt.Sprintf("%v panicked because of a concurrent operation: %s%s", h.in, h.out.Panic, describe(hist)))
			return
		}
		ops = append(ops, porcupine.Operation{ClientId: h.tid, Input: h.in, Output: h.out, Call: h.call, Return: h.ret})
	}
	if !porcupine.CheckOperations(model, ops) {
		// name the operation kinds involved for the signature: the kinds of writes that overlap
		kinds := map[string]bool{}
		for _, h := range hist {
			if h.in.Kind >= opComputeIf {
				kinds[opNames[h.in.Kind]] = true
			}
		}
		var ks []string
		for k := range kinds {
			ks = append(ks, k)
		}
		sort.Strings(ks)
		fail("not-linearizable|"+strings.Join(ks, "+"), "history is not linearizable w.r.t. the sequential map specification:"+describe(hist)+"\ntrace: "+trace)
	}
}

const ruleLin = "2-4 threads x 1-5 operations (Get, Size, Iterator, Updated, Removed, UpdatedWith, ComputeIf, ComputeIfAbsent; the first six in a quarter of the cases through the fp.Map facade fp.MakeMap(m); distinct written values) over keys {0,1,2} + a generated schedule over the yield points before every atomic load/store, before every lock acquisition and inside the compute callbacks; oracle: the recorded call/return history must be linearizable w.r.t. a sequential map (porcupine as oracle evaluator) and no operation may panic; non-trivial iff two operations of different threads overlap in time on a common key and at least one writes; distinct by programs+trace"

func linCheck(t *testing.T, name string, kinds []opKind, pct bool, minT, maxT, maxOps int) {
	kit.Check(t, name, ruleLin, kit.Opt{}, func(rt *rapid.T, rec *kit.Rec) {
		nT := rapid.IntRange(minT, maxT).Draw(rt, "threads")
		progs := make([][]opIn, nT)
		for i := range progs {
			n := rapid.IntRange(1, maxOps).Draw(rt, "nops")
			for j := 0; j < n; j++ {
				progs[i] = append(progs[i], drawOp(rt, kinds, i, j))
			}
		}
		var pick func(n int, rs []*kit.Thread) int
		if pct {
			pick = kit.PCTPick(rt, rapid.IntRange(0, 3).Draw(rt, "d"), 60)
		} else {
			pick = kit.UniformPick(rt)
		}
		hist, res, trace := runHistory(progs, pick)
		nt := overlapOnKeyWithWrite(hist)
		rec.Case(nt, progsDesc(progs)+"| "+trace)
		if nt {
			rec.Label("overlapping-write")
		} else {
			rec.Label("no-overlap")
		}
		var fs, fm string
		checkHistory(hist, res, trace, func(sig, msg string) {
			if fs == "" {
				fs, fm = sig, msg
			}
		})
		if fs != "" {
			rec.Failf(rt, "C19|"+fs, "%s\nprograms: %s", fm, progsDesc(progs))
		}
	})
}

var allKinds = []opKind{opGet, opSize, opIter, opUpdated, opRemoved, opUpdatedWith, opComputeIf, opComputeIfAbsent}
var basicKinds = []opKind{opGet, opSize, opIter, opUpdated, opRemoved, opUpdatedWith}

func TestLinearizable(t *testing.T) {
	// without the Compute* family: so that a defect there does not hide the rest
	linCheck(t, "lin/basic/uniform", basicKinds, false, 2, 4, 5)
	linCheck(t, "lin/basic/pct", basicKinds, true, 2, 4, 5)
	linCheck(t, "lin/all/uniform", allKinds, false, 2, 4, 5)
	linCheck(t, "lin/all/pct", allKinds, true, 2, 4, 5)
	linCheck(t, "lin/compute+remove", []opKind{opComputeIfAbsent, opComputeIf, opRemoved, opGet}, false, 2, 3, 3)
}

// per-key atomicity of ComputeIfAbsent: all concurrent calls return the stored value
func TestComputeIfAbsent(t *testing.T) {
	kit.Check(t, "computeIfAbsent/same-value", "2-4 threads each calling ComputeIfAbsent (distinct computed values) 1-3 times on keys {0,1,2} of a fresh map, generated schedule; oracle: for each key all calls return one value and it is the value finally stored; non-trivial iff two calls on one key overlap in time", kit.Opt{}, func(rt *rapid.T, rec *kit.Rec) {
		nT := rapid.IntRange(2, 4).Draw(rt, "threads")
		progs := make([][]opIn, nT)
		for i := range progs {
			n := rapid.IntRange(1, 3).Draw(rt, "nops")
			for j := 0; j < n; j++ {
				progs[i] = append(progs[i], drawOp(rt, []opKind{opComputeIfAbsent}, i, j))
			}
		}
		hist, res, trace := runHistory(progs, kit.UniformPick(rt))
		nt := overlapOnKeyWithWrite(hist)
		rec.Case(nt, progsDesc(progs)+"| "+trace)
		if res.Panic != nil || res.Overrun {
			rec.Failf(rt, "C19|computeIfAbsent|panic-or-livelock", "panic=%v overrun=%v\n%s", res.Panic, res.Overrun, res.PanicInfo)
		}
		seen := map[int]int{}
		for _, h := range hist {
			if h.out.Panic != "" {
				rec.Failf(rt, "C19|computeIfAbsent|op-panic", "%v panicked: %s", h.in, h.out.Panic)
			}
			if v, ok := seen[h.in.Key]; ok && v != h.out.Val {
				rec.Failf(rt, "C19|computeIfAbsent|different-values", "ComputeIfAbsent(%d) returned %d to one caller and %d to another%s\ntrace: %s", h.in.Key, v, h.out.Val, describe(hist), trace)
			}
			seen[h.in.Key] = h.out.Val
		}
	})
}

// exhaustive enumeration of all schedules of small configurations
func dfsConfig(t *testing.T, name string, progs [][]opIn, maxRuns int) {
	kit.Plain(t, name, "every schedule (depth-first enumeration of all decision vectors) of the fixed programs "+progsDesc(progs)+"; linearizability of each recorded history; non-trivial iff operations overlap on a key with a write", func(t *testing.T, rec *kit.Rec) {
		d := kit.NewDFS()
		for d.Next() {
			if d.Runs > maxRuns {
				break
			}
			hist, res, trace := runHistory(progs, func(n int, rs []*kit.Thread) int { return d.Pick(n) })
			rec.Case(overlapOnKeyWithWrite(hist), fmt.Sprint(d.Choices()))
			var fs, fm string
			checkHistory(hist, res, trace, func(sig, msg string) {
				if fs == "" {
					fs, fm = sig, msg
				}
			})
			if fs != "" {
				rec.PlainFail(t, "C19|"+fs, "schedule %v: %s", d.Choices(), fm)
			}
		}
		rec.Extra("exhaustive", d.Runs <= maxRuns)
		rec.Extra("schedules", d.Runs)
	})
}

func TestExhaustive(t *testing.T) {
	up := func(k, v int) opIn { return opIn{Kind: opUpdated, Key: k, Val: v} }
	get := func(k int) opIn { return opIn{Kind: opGet, Key: k} }
	cia := func(k, v int) opIn { return opIn{Kind: opComputeIfAbsent, Key: k, Val: v} }
	rm := func(k int) opIn { return opIn{Kind: opRemoved, Keys: []int{k}} }
	uw := func(k, v int) opIn { return opIn{Kind: opUpdatedWith, Key: k, Remap: [2]int{v, 1}} }
	max := kit.Pick(4000, 1500000)
	dfsConfig(t, "dfs/update-update", [][]opIn{{up(0, 11), get(0)}, {up(0, 21), get(0)}}, max)
	dfsConfig(t, "dfs/updatedwith-size", [][]opIn{{uw(0, 11), uw(0, 12)}, {uw(0, 21), {Kind: opSize}}}, max)
	dfsConfig(t, "dfs/computeIfAbsent-2", [][]opIn{{cia(0, 11)}, {cia(0, 21)}}, max)
	dfsConfig(t, "dfs/computeIfAbsent-remove", [][]opIn{{cia(0, 11)}, {up(0, 21), rm(0)}}, max)
	uwF := func(k, v int) opIn { o := uw(k, v); o.Facade = true; return o }
	dfsConfig(t, "dfs/updatedwith-via-fp.Map", [][]opIn{{uwF(0, 11), get(0)}, {uwF(0, 21), uw(0, 22)}}, max)
	dfsConfig(t, "dfs/iterator-writes", [][]opIn{{{Kind: opIter}}, {up(0, 11), up(1, 12)}}, max)
}
