package c11

import (
	"fmt"
	"testing"

	"github.com/csgura/fp"
	"github.com/csgura/fp/future"
	"github.com/csgura/fp/monoid"
	"github.com/csgura/fp/semigroup"
	"github.com/csgura/fp/try"
	"pgregory.net/rapid"

	"verifharness/kit"
)

// taskQueue takes over the default executor (verif spawn hook): tasks are queued and run to completion, in
// FIFO order, by whoever wants to look at a future. No goroutine, no wall clock: a future that is not
// complete when the queue is empty never completes.
type taskQueue struct{ q []func() }

func (tq *taskQueue) install(t *testing.T) {
	fp.VerifSetSpawn(func(run func()) bool { tq.q = append(tq.q, run); return true })
	t.Cleanup(func() { fp.VerifSetSpawn(nil) })
}

func (tq *taskQueue) drain() {
	for len(tq.q) > 0 {
		r := tq.q[0]
		tq.q = tq.q[1:]
		r()
	}
}

func (tq *taskQueue) result(f fp.Future[string]) fp.Try[string] {
	tq.drain()
	if !f.IsCompleted() {
		return try.Failure[string](fmt.Errorf("future not complete although no task is left"))
	}
	return f.Value()
}

// monoid.Future is not in C11's parenthesised list but is an instance "of the monoid package": the laws are
// checked on the results (the first failure in left-to-right order wins, as for monoid.Try).
func TestFutureMonoid(t *testing.T) {
	tq := &taskQueue{}
	tq.install(t)
	str := kit.SmallString()
	gen := rapid.Custom(func(t *rapid.T) fp.Future[string] {
		if rapid.IntRange(0, 3).Draw(t, "fail") == 0 {
			return future.Failed[string](rapid.SampledFrom(kit.Errs[:3]).Draw(t, "err"))
		}
		return future.Successful(str.Draw(t, "ok"))
	})
	eqT := eqTry(ceq[string])
	fm := mk("monoid.Future(String)", monoid.Future(monoid.String), gen,
		func(a, b fp.Future[string]) bool { return eqT(tq.result(a), tq.result(b)) },
		func(f fp.Future[string]) string { return "Future(" + showTry(tq.result(f)) + ")" },
		func(a, b fp.Future[string]) fp.Future[string] {
			ra, rb := tq.result(a), tq.result(b)
			if ra.IsFailure() {
				return future.Failed[string](ra.Failed().Get())
			}
			if rb.IsFailure() {
				return future.Failed[string](rb.Failed().Get())
			}
			return future.Successful(ra.Get() + rb.Get())
		}, nil)
	fm.noConc = true // results are read through the single-threaded task queue
	runLaws(t, fm)
}

// The methods every instance built by monoid.New / semigroup.New carries besides Combine and Empty.
func TestInstanceMethods(t *testing.T) {
	kit.Check(t, "monoid.New/Curried+ToMonoid", "a, b, e strings; Curried()(a)(b) = Combine(a, b) for monoid.New, semigroup.New and fp.SemigroupFunc; ToMonoid(e) keeps Combine and has Empty() = e; non-trivial iff a and b are non-empty and different; distinct by printed case", kit.Opt{}, func(rt *rapid.T, rec *kit.Rec) {
		a, b, e := kit.SmallString().Draw(rt, "a"), kit.SmallString().Draw(rt, "b"), kit.SmallString().Draw(rt, "e")
		rec.Case(a != "" && b != "" && a != b, fmt.Sprintf("%q %q %q", a, b, e))
		cat := func(x, y string) string { return x + y }
		type curried interface {
			Curried() func(string) func(string) string
		}
		for name, inst := range map[string]any{
			"monoid.New":       monoid.New(func() string { return "" }, cat),
			"semigroup.New":    semigroup.New(cat),
			"fp.SemigroupFunc": fp.SemigroupFunc[string](cat),
		} {
			c, ok := inst.(curried)
			if !ok {
				continue
			}
			var got string
			rec.Guard(rt, "C11|"+name+".Curried|value", func() { got = c.Curried()(a)(b) })
			if got != a+b {
				rec.Failf(rt, "C11|"+name+".Curried|value", "%s(concat).Curried()(%q)(%q) = %q, Combine gives %q", name, a, b, got, a+b)
			}
		}
		type toMonoid interface {
			ToMonoid(fp.EmptyFunc[string]) fp.Monoid[string]
		}
		for name, inst := range map[string]any{
			"monoid.New":    monoid.New(func() string { return "" }, cat),
			"semigroup.New": semigroup.New(cat),
		} {
			tm, ok := inst.(toMonoid)
			if !ok {
				continue
			}
			var m fp.Monoid[string]
			rec.Guard(rt, "C11|"+name+".ToMonoid|value", func() { m = tm.ToMonoid(func() string { return e }) })
			if m.Empty() != e || m.Combine(a, b) != a+b {
				rec.Failf(rt, "C11|"+name+".ToMonoid|value", "%s(concat).ToMonoid(%q): Empty() = %q, Combine(%q, %q) = %q", name, e, m.Empty(), a, b, m.Combine(a, b))
			}
		}
	})
}
