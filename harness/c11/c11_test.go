package c11

import (
	"sync"
	"errors"
	"fmt"
	"reflect"
	"sort"
	"strconv"
	"testing"

	"github.com/csgura/fp"
	"github.com/csgura/fp/as"
	"github.com/csgura/fp/hash"
	"github.com/csgura/fp/hlist"
	"github.com/csgura/fp/immutable"
	"github.com/csgura/fp/iterator"
	"github.com/csgura/fp/lazy"
	"github.com/csgura/fp/list"
	"github.com/csgura/fp/monoid"
	"github.com/csgura/fp/option"
	"github.com/csgura/fp/semigroup"
	"github.com/csgura/fp/seq"
	"github.com/csgura/fp/try"
	"pgregory.net/rapid"

	"verifharness/kit"
)

func TestMain(m *testing.M) { kit.Main(m) }

// inst describes one monoid (or semigroup) instance under test together with
// a generator, an observational equality, a printer and, where the name of the
// instance states what it computes, an independently written reference.
type inst[T any] struct {
	name   string
	sg     fp.Semigroup[T]
	empty  func() T // nil for plain semigroups
	gen    *rapid.Generator[T]
	eq     func(a, b T) bool
	show   func(T) string
	ref    func(a, b T) T // nil if the name promises nothing
	refE   func() T
	noAsso bool // floats: associativity not demanded
	noConc bool // the instance's values are only observable through a single-threaded harness device (task queue)
}

func mk[T any](name string, m fp.Monoid[T], gen *rapid.Generator[T], eq func(a, b T) bool, show func(T) string, ref func(a, b T) T, refE func() T) inst[T] {
	return inst[T]{name: name, sg: m, empty: m.Empty, gen: gen, eq: eq, show: show, ref: ref, refE: refE}
}

func mkSG[T any](name string, s fp.Semigroup[T], gen *rapid.Generator[T], eq func(a, b T) bool, show func(T) string, ref func(a, b T) T) inst[T] {
	return inst[T]{name: name, sg: s, gen: gen, eq: eq, show: show, ref: ref}
}

func sprint[T any](v T) string { return fmt.Sprintf("%#v", v) }
func deq[T any](a, b T) bool  { return reflect.DeepEqual(a, b) }
func ceq[T comparable](a, b T) bool {
	return a == b
}

func runLaws[T any](t *testing.T, in inst[T]) {
	t.Helper()
	if !in.noAsso {
		kit.Check(t, in.name+"/assoc", "triple (a,b,c) from the instance generator; non-trivial iff none of a,b,c is observably the identity; distinct by printed triple", kit.Opt{}, func(rt *rapid.T, rec *kit.Rec) {
			a, b, c := in.gen.Draw(rt, "a"), in.gen.Draw(rt, "b"), in.gen.Draw(rt, "c")
			nt := true
			if in.empty != nil {
				e := in.empty()
				nt = !in.eq(a, e) && !in.eq(b, e) && !in.eq(c, e)
			}
			rec.Case(nt, fmt.Sprintf("%s|%s|%s", in.show(a), in.show(b), in.show(c)))
			var l, r T
			rec.Guard(rt, "C11|"+in.name+"|assoc", func() {
				l = in.sg.Combine(in.sg.Combine(a, b), c)
				r = in.sg.Combine(a, in.sg.Combine(b, c))
			})
			if !in.eq(l, r) {
				rec.Failf(rt, "C11|"+in.name+"|assoc", "(a+b)+c = %s but a+(b+c) = %s for a=%s b=%s c=%s", in.show(l), in.show(r), in.show(a), in.show(b), in.show(c))
			}
		})
	}
	if !in.noAsso {
		// The same VALUE as two operands of one expression - the same pointer, the same slice, the same map,
		// not an equal copy: Combine(a, a) is an ordinary use (doubling), and a triple in which a value recurs
		// is an ordinary triple.
		kit.Check(t, in.name+"/same-operand", "values a, b from the instance generator; a itself (not a copy) is passed as both operands of Combine(a, a) - compared with the reference semantics where the name promises one - and recurs in the triples (a,a,b), (b,a,a), (a,b,a), for which associativity is demanded as for any triple; non-trivial iff a is not observably the identity; distinct by printed pair", kit.Opt{Weight: 0.5}, func(rt *rapid.T, rec *kit.Rec) {
			a, b := in.gen.Draw(rt, "a"), in.gen.Draw(rt, "b")
			nt := true
			if in.empty != nil {
				nt = !in.eq(a, in.empty())
			}
			sa, sb := in.show(a), in.show(b)
			rec.Case(nt, sa+"|"+sb)
			sig := "C11|" + in.name + "|same-operand"
			var aa T
			rec.Guard(rt, sig, func() { aa = in.sg.Combine(a, a) })
			if in.ref != nil {
				if want := in.ref(a, a); !in.eq(aa, want) {
					rec.Failf(rt, sig, "Combine(a, a) = %s with the same value a = %s as both operands, want %s", in.show(aa), sa, in.show(want))
				}
			}
			for i, tr := range [][3]T{{a, a, b}, {b, a, a}, {a, b, a}} {
				var l, r T
				rec.Guard(rt, sig, func() {
					l = in.sg.Combine(in.sg.Combine(tr[0], tr[1]), tr[2])
					r = in.sg.Combine(tr[0], in.sg.Combine(tr[1], tr[2]))
				})
				if !in.eq(l, r) {
					rec.Failf(rt, sig, "triple %d of (a,a,b),(b,a,a),(a,b,a) with a=%s b=%s: (x+y)+z = %s but x+(y+z) = %s", i, sa, sb, in.show(l), in.show(r))
				}
			}
			if in.show(a) != sa || in.show(b) != sb {
				rec.Failf(rt, sig, "operands changed: a %s -> %s, b %s -> %s", sa, in.show(a), sb, in.show(b))
			}
		})
	}
	if in.empty != nil {
		kit.Check(t, in.name+"/identity", "value a from the instance generator; non-trivial iff a is not itself the identity; distinct by printed value", kit.Opt{}, func(rt *rapid.T, rec *kit.Rec) {
			a := in.gen.Draw(rt, "a")
			var e, l, r T
			rec.Guard(rt, "C11|"+in.name+"|identity", func() {
				e = in.empty()
				l = in.sg.Combine(e, a)
				r = in.sg.Combine(a, e)
			})
			rec.Case(!in.eq(a, e), in.show(a))
			if !in.eq(l, a) {
				rec.Failf(rt, "C11|"+in.name+"|identity", "Empty+a = %s, want a = %s (Empty=%s)", in.show(l), in.show(a), in.show(e))
			}
			if !in.eq(r, a) {
				rec.Failf(rt, "C11|"+in.name+"|identity", "a+Empty = %s, want a = %s (Empty=%s)", in.show(r), in.show(a), in.show(e))
			}
			if in.refE != nil && !in.eq(e, in.refE()) {
				rec.Failf(rt, "C11|"+in.name+"|identity", "Empty = %s, the name promises %s", in.show(e), in.show(in.refE()))
			}
		})
	}
	if !in.noConc {
		// The instance is a shared value: Combine must give the same results when several goroutines use
		// it at once. Real goroutines: a miss proves nothing, a mismatch with the sequential results is a
		// violation. Operands are read-only here (Combine must not write to them: property C04).
		kit.Check(t, in.name+"/concurrent", "3 pairs (a,b); Combine(a,b) computed sequentially, then G in 2..8 goroutines released together recompute the combinations 100 times each in rotating order; every result must equal the sequential one; non-trivial iff G >= 4; distinct by (G, printed pairs)", kit.Opt{Weight: 0.1}, func(rt *rapid.T, rec *kit.Rec) {
			G := rapid.IntRange(2, 8).Draw(rt, "G")
			const n = 3
			var as, bs, want [n]T
			desc := ""
			for i := 0; i < n; i++ {
				as[i], bs[i] = in.gen.Draw(rt, "a"), in.gen.Draw(rt, "b")
				desc += in.show(as[i]) + "+" + in.show(bs[i]) + " ; "
			}
			rec.Case(G >= 4, fmt.Sprintf("G=%d %s", G, desc))
			rec.Guard(rt, "C11|"+in.name+"|concurrent", func() {
				for i := 0; i < n; i++ {
					want[i] = in.sg.Combine(as[i], bs[i])
				}
			})
			bad := make([]string, G)
			start := make(chan struct{})
			var wg sync.WaitGroup
			for g := 0; g < G; g++ {
				wg.Add(1)
				go func(g int) {
					defer wg.Done()
					defer func() {
						if r := recover(); r != nil && bad[g] == "" {
							bad[g] = fmt.Sprintf("goroutine %d panicked: %v", g, r)
						}
					}()
					<-start
					for k := 0; k < 100; k++ {
						i := (g + k) % n
						if got := in.sg.Combine(as[i], bs[i]); !in.eq(got, want[i]) && bad[g] == "" {
							bad[g] = fmt.Sprintf("goroutine %d of %d: Combine(%s,%s) = %s while other goroutines were combining; sequentially %s", g, G, in.show(as[i]), in.show(bs[i]), in.show(got), in.show(want[i]))
						}
					}
				}(g)
			}
			close(start)
			wg.Wait()
			for _, m := range bad {
				if m != "" {
					rec.Failf(rt, "C11|"+in.name+"|concurrent", "%s", m)
				}
			}
		})
	}
	if in.ref != nil {
		kit.Check(t, in.name+"/named", "pair (a,b); Combine compared with the independently written meaning of the instance's name; non-trivial iff a and b differ; distinct by printed pair", kit.Opt{}, func(rt *rapid.T, rec *kit.Rec) {
			a, b := in.gen.Draw(rt, "a"), in.gen.Draw(rt, "b")
			rec.Case(!in.eq(a, b), in.show(a)+"|"+in.show(b))
			var got T
			rec.Guard(rt, "C11|"+in.name+"|named", func() { got = in.sg.Combine(a, b) })
			want := in.ref(a, b)
			if !in.eq(got, want) {
				rec.Failf(rt, "C11|"+in.name+"|named", "Combine(%s,%s) = %s, want %s", in.show(a), in.show(b), in.show(got), in.show(want))
			}
		})
	}
}

// ---- value generators ---------------------------------------------------------

func genOpt[T any](g *rapid.Generator[T]) *rapid.Generator[fp.Option[T]] {
	return rapid.Custom(func(t *rapid.T) fp.Option[T] {
		if rapid.IntRange(0, 3).Draw(t, "none") == 0 {
			return option.None[T]()
		}
		return option.Some(g.Draw(t, "some"))
	})
}

func genTry[T any](g *rapid.Generator[T]) *rapid.Generator[fp.Try[T]] {
	return rapid.Custom(func(t *rapid.T) fp.Try[T] {
		if rapid.IntRange(0, 3).Draw(t, "fail") == 0 {
			return try.Failure[T](rapid.SampledFrom(kit.Errs[:3]).Draw(t, "err"))
		}
		return try.Success(g.Draw(t, "ok"))
	})
}

func eqTry[T any](eq func(a, b T) bool) func(a, b fp.Try[T]) bool {
	return func(a, b fp.Try[T]) bool {
		if a.IsSuccess() != b.IsSuccess() {
			return false
		}
		if a.IsSuccess() {
			return eq(a.Get(), b.Get())
		}
		return errors.Is(a.Failed().Get(), b.Failed().Get())
	}
}

func eqOpt[T any](eq func(a, b T) bool) func(a, b fp.Option[T]) bool {
	return func(a, b fp.Option[T]) bool {
		if a.IsDefined() != b.IsDefined() {
			return false
		}
		return !a.IsDefined() || eq(a.Get(), b.Get())
	}
}

func showTry[T any](t fp.Try[T]) string {
	if t.IsSuccess() {
		return fmt.Sprintf("Success(%#v)", t.Get())
	}
	return "Failure(" + t.Failed().Get().Error() + ")"
}

func showOpt[T any](o fp.Option[T]) string {
	if o.IsDefined() {
		return fmt.Sprintf("Some(%#v)", o.Get())
	}
	return "None"
}

func eqSliceNilEmpty[T comparable](a, b []T) bool {
	if len(a) != len(b) {
		return false
	}
	for i := range a {
		if a[i] != b[i] {
			return false
		}
	}
	return true
}

func mapContent(m fp.Map[int, int]) map[int]int {
	r := map[int]int{}
	it := m.Iterator()
	for it.HasNext() {
		k, v := it.Next().Unapply()
		r[k] = v
	}
	return r
}

func showGoMap(m map[int]int) string {
	ks := make([]int, 0, len(m))
	for k := range m {
		ks = append(ks, k)
	}
	sort.Ints(ks)
	s := "{"
	for _, k := range ks {
		s += fmt.Sprintf("%d:%d,", k, m[k])
	}
	return s + "}"
}

func genGoMap() *rapid.Generator[map[int]int] {
	return rapid.MapOfN(rapid.IntRange(0, 5), rapid.IntRange(0, 3), 0, 4)
}

var intHash = hash.Number[int]()

func genFpMap() *rapid.Generator[fp.Map[int, int]] {
	return rapid.Custom(func(t *rapid.T) fp.Map[int, int] {
		kind := rapid.IntRange(0, 3).Draw(t, "kind")
		m := genGoMap().Draw(t, "content")
		if kind == 0 {
			// zero value based map (UnsafeGoMap fallback)
			var r fp.Map[int, int]
			ks := sortedKeys(m)
			for _, k := range ks {
				r = r.Updated(k, m[k])
			}
			return r
		}
		r := immutable.Map[int, int](intHash)
		for _, k := range sortedKeys(m) {
			r = r.Updated(k, m[k])
		}
		return r
	})
}

func sortedKeys(m map[int]int) []int {
	ks := make([]int, 0, len(m))
	for k := range m {
		ks = append(ks, k)
	}
	sort.Ints(ks)
	return ks
}

func setContent(s fp.Set[int]) []int {
	r := []int{}
	it := s.Iterator()
	for it.HasNext() {
		r = append(r, it.Next())
	}
	sort.Ints(r)
	return r
}

func genFpSet() *rapid.Generator[fp.Set[int]] {
	return rapid.Custom(func(t *rapid.T) fp.Set[int] {
		kind := rapid.IntRange(0, 3).Draw(t, "kind")
		xs := rapid.SliceOfN(rapid.IntRange(0, 5), 0, 4).Draw(t, "elems")
		if kind == 0 {
			var r fp.Set[int]
			for _, x := range xs {
				r = r.Incl(x)
			}
			return r
		}
		return immutable.Set(intHash, xs...)
	})
}

func unionSorted(a, b []int) []int {
	m := map[int]bool{}
	for _, x := range a {
		m[x] = true
	}
	for _, x := range b {
		m[x] = true
	}
	r := []int{}
	for k := range m {
		r = append(r, k)
	}
	sort.Ints(r)
	return r
}

// endo: table functions compared extensionally on a test domain
type endoT struct {
	f   fp.Endo[int]
	tab []int
}

var endoDomain = []int{-3, -2, -1, 0, 1, 2, 3, 4, 5, 6, 7, 8, 11, 100}

func genEndo() *rapid.Generator[fp.Endo[int]] {
	return rapid.Custom(func(t *rapid.T) fp.Endo[int] {
		switch rapid.IntRange(0, 3).Draw(t, "kind") {
		case 0:
			return fp.Endo[int](fp.Id[int])
		case 1:
			k := rapid.IntRange(-2, 3).Draw(t, "add")
			return fp.Endo[int](func(x int) int { return x + k })
		case 2:
			k := rapid.IntRange(-2, 3).Draw(t, "mul")
			return fp.Endo[int](func(x int) int { return x * k })
		default:
			f := kit.IntFnGen().Draw(t, "tab")
			return fp.Endo[int](f.Call)
		}
	})
}

func eqEndo(a, b fp.Endo[int]) bool {
	for _, x := range endoDomain {
		if a(x) != b(x) {
			return false
		}
	}
	return true
}

func showEndo(a fp.Endo[int]) string {
	s := "fn"
	for _, x := range endoDomain {
		s += fmt.Sprintf(" %d→%d", x, a(x))
	}
	return s
}

func genEval() *rapid.Generator[lazy.Eval[string]] {
	return rapid.Custom(func(t *rapid.T) lazy.Eval[string] {
		s := kit.SmallString().Draw(t, "s")
		switch rapid.IntRange(0, 2).Draw(t, "kind") {
		case 0:
			return lazy.Done(s)
		case 1:
			return lazy.Call(func() string { return s })
		default:
			return lazy.TailCall(func() lazy.Eval[string] { return lazy.Done(s) })
		}
	})
}

func genPtr[T any](g *rapid.Generator[T]) *rapid.Generator[*T] {
	return rapid.Custom(func(t *rapid.T) *T {
		if rapid.IntRange(0, 3).Draw(t, "nil") == 0 {
			return nil
		}
		v := g.Draw(t, "v")
		return &v
	})
}

func eqPtr[T comparable](a, b *T) bool {
	if a == nil || b == nil {
		return a == nil && b == nil
	}
	return *a == *b
}
func showPtr[T any](a *T) string {
	if a == nil {
		return "nil"
	}
	return fmt.Sprintf("&%#v", *a)
}

func TestInstances(t *testing.T) {
	str := kit.SmallString()
	runLaws(t, mk("monoid.String", monoid.String, str, ceq[string], sprint[string], func(a, b string) string { return a + b }, func() string { return "" }))
	runLaws(t, mk("monoid.Sum[int]", monoid.Sum[int](), rapid.Int(), ceq[int], sprint[int], func(a, b int) int { return a + b }, func() int { return 0 }))
	runLaws(t, mk("monoid.Sum[int8]", monoid.Sum[int8](), rapid.Int8(), ceq[int8], sprint[int8], func(a, b int8) int8 { return a + b }, func() int8 { return 0 }))
	runLaws(t, mk("monoid.Sum[uint16]", monoid.Sum[uint16](), rapid.Uint16(), ceq[uint16], sprint[uint16], func(a, b uint16) uint16 { return a + b }, func() uint16 { return 0 }))
	runLaws(t, mk("monoid.Sum[string]", monoid.Sum[string](), str, ceq[string], sprint[string], func(a, b string) string { return a + b }, func() string { return "" }))
	fl := rapid.SampledFrom([]float64{0, 1, -1, 2.5, 1e300, -1e300, 0.1, 3})
	sf := mk("monoid.Sum[float64]", monoid.Sum[float64](), fl, ceq[float64], sprint[float64], func(a, b float64) float64 { return a + b }, func() float64 { return 0 })
	sf.noAsso = true
	runLaws(t, sf)
	runLaws(t, mk("fp.Sum[int]", fp.Sum[int](), rapid.Int(), ceq[int], sprint[int], func(a, b int) int { return a + b }, func() int { return 0 }))
	runLaws(t, mk("monoid.Product[int]", monoid.Product[int](), kit.SmallInt(), ceq[int], sprint[int], func(a, b int) int { return a * b }, func() int { return 1 }))
	runLaws(t, mk("monoid.Product[int8]", monoid.Product[int8](), rapid.Int8(), ceq[int8], sprint[int8], func(a, b int8) int8 { return a * b }, func() int8 { return 1 }))
	runLaws(t, mk("monoid.Product[uint]", monoid.Product[uint](), rapid.Uint(), ceq[uint], sprint[uint], func(a, b uint) uint { return a * b }, func() uint { return 1 }))
	pf := mk("monoid.Product[float64]", monoid.Product[float64](), fl, ceq[float64], sprint[float64], func(a, b float64) float64 { return a * b }, func() float64 { return 1 })
	pf.noAsso = true
	runLaws(t, pf)
	runLaws(t, mk("fp.Product[int]", fp.Product[int](), kit.SmallInt(), ceq[int], sprint[int], func(a, b int) int { return a * b }, func() int { return 1 }))
	runLaws(t, mk("monoid.Any", monoid.Any, rapid.Bool(), ceq[bool], sprint[bool], func(a, b bool) bool { return a || b }, func() bool { return false }))
	runLaws(t, mk("monoid.All", monoid.All, rapid.Bool(), ceq[bool], sprint[bool], func(a, b bool) bool { return a && b }, func() bool { return true }))
	runLaws(t, mk("monoid.Unit", monoid.Unit, rapid.Just(fp.Unit{}), ceq[fp.Unit], sprint[fp.Unit], nil, nil))
	runLaws(t, mk("monoid.HNil", monoid.HNil, rapid.Just(hlist.Nil{}), ceq[hlist.Nil], sprint[hlist.Nil], nil, nil))

	runLaws(t, mk("monoid.Option(String)", monoid.Option(monoid.String), genOpt(str), eqOpt(ceq[string]), showOpt[string],
		func(a, b fp.Option[string]) fp.Option[string] {
			if a.IsDefined() && b.IsDefined() {
				return option.Some(a.Get() + b.Get())
			}
			return option.None[string]()
		}, nil))
	runLaws(t, mk("monoid.Try(String)", monoid.Try(monoid.String), genTry(str), eqTry(ceq[string]), showTry[string],
		func(a, b fp.Try[string]) fp.Try[string] {
			if a.IsFailure() {
				return a
			}
			if b.IsFailure() {
				return b
			}
			return try.Success(a.Get() + b.Get())
		}, nil))
	// operands with spare capacity (0..4 unused elements behind the length): a Combine that appends in place
	// would write into its left operand's array, which an earlier result may share
	capSlice := rapid.Custom(func(t *rapid.T) []int {
		xs := kit.IntSlice(3).Draw(t, "xs")
		if xs == nil && rapid.Bool().Draw(t, "nil") {
			return nil
		}
		return append(make([]int, 0, len(xs)+rapid.IntRange(0, 4).Draw(t, "spare")), xs...)
	})
	runLaws(t, mk("monoid.MergeSeq[int]/spare-capacity", monoid.MergeSeq[int](), rapid.Map(capSlice, func(s []int) fp.Seq[int] { return s }),
		func(a, b fp.Seq[int]) bool { return eqSliceNilEmpty(a, b) }, sprint[fp.Seq[int]],
		func(a, b fp.Seq[int]) fp.Seq[int] { return append(append(fp.Seq[int]{}, a...), b...) }, func() fp.Seq[int] { return nil }))
	runLaws(t, mk("monoid.MergeSlice[int]/spare-capacity", monoid.MergeSlice[int](), capSlice,
		eqSliceNilEmpty[int], sprint[[]int],
		func(a, b []int) []int { return append(append([]int{}, a...), b...) }, func() []int { return nil }))
	runLaws(t, mk("monoid.MergeSeq[int]", monoid.MergeSeq[int](), rapid.Map(kit.IntSlice(3), func(s []int) fp.Seq[int] { return s }),
		func(a, b fp.Seq[int]) bool { return eqSliceNilEmpty(a, b) }, sprint[fp.Seq[int]],
		func(a, b fp.Seq[int]) fp.Seq[int] { return append(append(fp.Seq[int]{}, a...), b...) }, func() fp.Seq[int] { return nil }))
	runLaws(t, mk("monoid.MergeSlice[int]", monoid.MergeSlice[int](), kit.IntSlice(3),
		eqSliceNilEmpty[int], sprint[[]int],
		func(a, b []int) []int { return append(append([]int{}, a...), b...) }, func() []int { return nil }))
	runLaws(t, mk("monoid.MergeGoMap", monoid.MergeGoMap[int, int](), genGoMap(),
		func(a, b map[int]int) bool { return showGoMap(a) == showGoMap(b) }, showGoMap,
		func(a, b map[int]int) map[int]int {
			r := map[int]int{}
			for k, v := range a {
				r[k] = v
			}
			for k, v := range b {
				r[k] = v
			}
			return r
		}, func() map[int]int { return nil }))
	runLaws(t, mk("monoid.MergeMap", monoid.MergeMap[int, int](), genFpMap(),
		func(a, b fp.Map[int, int]) bool { return showGoMap(mapContent(a)) == showGoMap(mapContent(b)) && a.Size() == b.Size() },
		func(m fp.Map[int, int]) string { return fmt.Sprintf("%T%s", m.Base, showGoMap(mapContent(m))) },
		func(a, b fp.Map[int, int]) fp.Map[int, int] {
			r := map[int]int{}
			for k, v := range mapContent(a) {
				r[k] = v
			}
			for k, v := range mapContent(b) {
				r[k] = v
			}
			out := immutable.Map[int, int](intHash)
			for _, k := range sortedKeys(r) {
				out = out.Updated(k, r[k])
			}
			return out
		}, nil))
	runLaws(t, mk("monoid.MergeSet", monoid.MergeSet[int](), genFpSet(),
		func(a, b fp.Set[int]) bool { return reflect.DeepEqual(setContent(a), setContent(b)) && a.Size() == b.Size() },
		func(s fp.Set[int]) string { return fmt.Sprintf("Set%v", setContent(s)) },
		func(a, b fp.Set[int]) fp.Set[int] { return immutable.Set(intHash, unionSorted(setContent(a), setContent(b))...) }, nil))
	runLaws(t, mk("monoid.Endo[int]", monoid.Endo[int](), genEndo(), eqEndo, showEndo,
		// "Endo composes": Combine(f,g) = f ∘ g, i.e. x ↦ f(g(x))
		func(a, b fp.Endo[int]) fp.Endo[int] { return func(x int) int { return a(b(x)) } }, func() fp.Endo[int] { return fp.Id[int] }))
	runLaws(t, mk("monoid.Dual(String)", monoid.Dual(monoid.String), rapid.Map(str, as.Dual[string]), ceq[fp.Dual[string]], sprint[fp.Dual[string]],
		func(a, b fp.Dual[string]) fp.Dual[string] { return fp.Dual[string]{GetDual: b.GetDual + a.GetDual} }, func() fp.Dual[string] { return fp.Dual[string]{} }))
	runLaws(t, mk("monoid.Dual(MergeSeq)", monoid.Dual(monoid.MergeSeq[int]()), rapid.Map(kit.IntSlice(3), func(s []int) fp.Dual[fp.Seq[int]] { return as.Dual(fp.Seq[int](s)) }),
		func(a, b fp.Dual[fp.Seq[int]]) bool { return eqSliceNilEmpty(a.GetDual, b.GetDual) }, sprint[fp.Dual[fp.Seq[int]]],
		func(a, b fp.Dual[fp.Seq[int]]) fp.Dual[fp.Seq[int]] {
			return fp.Dual[fp.Seq[int]]{GetDual: append(append(fp.Seq[int]{}, b.GetDual...), a.GetDual...)}
		}, nil))
	runLaws(t, mk("monoid.Eval(String)", monoid.Eval(monoid.String), genEval(),
		func(a, b lazy.Eval[string]) bool { return a.Get() == b.Get() }, func(e lazy.Eval[string]) string { return "Eval(" + e.Get() + ")" },
		func(a, b lazy.Eval[string]) lazy.Eval[string] { return lazy.Done(a.Get() + b.Get()) }, func() lazy.Eval[string] { return lazy.Done("") }))
	runLaws(t, mk("monoid.Ptr(String)", monoid.Ptr(lazy.Done[fp.Monoid[string]](monoid.String)), genPtr(str), eqPtr[string], showPtr[string],
		func(a, b *string) *string {
			if a != nil && b != nil {
				r := *a + *b
				return &r
			}
			if a == nil {
				return b
			}
			return a
		}, func() *string { return nil }))
	type hl = hlist.Cons[string, hlist.Cons[int, hlist.Nil]]
	genHL := rapid.Custom(func(t *rapid.T) hl {
		return hlist.Concat(str.Draw(t, "h"), hlist.Concat(rapid.IntRange(-2, 3).Draw(t, "i"), hlist.Nil{}))
	})
	runLaws(t, mk("monoid.HCons(String,HCons(Sum,HNil))", monoid.HCons(monoid.String, monoid.HCons(monoid.Sum[int](), monoid.HNil)), genHL, ceq[hl], sprint[hl],
		func(a, b hl) hl {
			return hlist.Concat(a.Head()+b.Head(), hlist.Concat(hlist.Tail(a).Head()+hlist.Tail(b).Head(), hlist.Nil{}))
		}, func() hl { return hlist.Concat("", hlist.Concat(0, hlist.Nil{})) }))
	runLaws(t, mk("monoid.IMap(Sum,itoa,atoi)", monoid.IMap(monoid.Sum[int](), strconv.Itoa, func(s string) int { n, _ := strconv.Atoi(s); return n }),
		rapid.Map(rapid.IntRange(-50, 50), strconv.Itoa), ceq[string], sprint[string],
		func(a, b string) string { x, _ := strconv.Atoi(a); y, _ := strconv.Atoi(b); return strconv.Itoa(x + y) }, func() string { return "0" }))
	runLaws(t, mk("monoid.New.ToMonoid", monoid.New(func() string { return "" }, func(a, b string) string { return a + b }), str, ceq[string], sprint[string], func(a, b string) string { return a + b }, nil))

	// semigroup package
	runLaws(t, mkSG("semigroup.Sum[int]", semigroup.Sum[int](), rapid.Int(), ceq[int], sprint[int], func(a, b int) int { return a + b }))
	runLaws(t, mkSG("semigroup.Product[int]", semigroup.Product[int](0, 0), kit.SmallInt(), ceq[int], sprint[int], func(a, b int) int { return a * b }))
	runLaws(t, mkSG("semigroup.Any", semigroup.Any, rapid.Bool(), ceq[bool], sprint[bool], func(a, b bool) bool { return a || b }))
	runLaws(t, mkSG("semigroup.All", semigroup.All, rapid.Bool(), ceq[bool], sprint[bool], func(a, b bool) bool { return a && b }))
	runLaws(t, mkSG("semigroup.Endo[int]", semigroup.Endo[int](), genEndo(), eqEndo, showEndo, func(a, b fp.Endo[int]) fp.Endo[int] { return func(x int) int { return a(b(x)) } }))
	runLaws(t, mkSG("semigroup.Dual(String)", semigroup.Dual[string](monoid.String), rapid.Map(str, as.Dual[string]), ceq[fp.Dual[string]], sprint[fp.Dual[string]],
		func(a, b fp.Dual[string]) fp.Dual[string] { return fp.Dual[string]{GetDual: b.GetDual + a.GetDual} }))
	runLaws(t, mkSG("semigroup.Eval(String)", semigroup.Eval[string](monoid.String), genEval(),
		func(a, b lazy.Eval[string]) bool { return a.Get() == b.Get() }, func(e lazy.Eval[string]) string { return "Eval(" + e.Get() + ")" },
		func(a, b lazy.Eval[string]) lazy.Eval[string] { return lazy.Done(a.Get() + b.Get()) }))
	runLaws(t, mkSG("semigroup.IMap", semigroup.IMap[int, string](semigroup.Sum[int](), strconv.Itoa, func(s string) int { n, _ := strconv.Atoi(s); return n }),
		rapid.Map(rapid.IntRange(-50, 50), strconv.Itoa), ceq[string], sprint[string],
		func(a, b string) string { x, _ := strconv.Atoi(a); y, _ := strconv.Atoi(b); return strconv.Itoa(x + y) }))
	runLaws(t, mkSG("semigroup.Ptr(String)", semigroup.Ptr(lazy.Done[fp.Semigroup[string]](monoid.String)), genPtr(str), eqPtr[string], showPtr[string],
		func(a, b *string) *string {
			if a != nil && b != nil {
				r := *a + *b
				return &r
			}
			if a == nil {
				return b
			}
			return a
		}))
	runLaws(t, mkSG("semigroup.Option(String)", semigroup.Option[string](monoid.String), genOpt(str), eqOpt(ceq[string]), showOpt[string],
		func(a, b fp.Option[string]) fp.Option[string] {
			if a.IsDefined() && b.IsDefined() {
				return option.Some(a.Get() + b.Get())
			}
			if a.IsEmpty() {
				return b
			}
			return a
		}))
	runLaws(t, mkSG("semigroup.New", semigroup.New(func(a, b string) string { return a + b }), str, ceq[string], sprint[string], func(a, b string) string { return a + b }))
}

// ---- Reduce / FoldMap -----------------------------------------------------------

// list kinds: the same element sequence as a slice-backed, cons-cell and lazily generated list.
func mkList[T any](kind int, xs []T) fp.List[T] {
	switch kind {
	case 0:
		return list.Of(xs...)
	case 1:
		var l fp.List[T] = list.Empty[T]()
		for i := len(xs) - 1; i >= 0; i-- {
			l = list.Apply(xs[i], l)
		}
		return l
	case 2:
		return list.Generate(func(i int) fp.Option[T] {
			if i < len(xs) {
				return option.Some(xs[i])
			}
			return option.None[T]()
		})
	default:
		return list.Collect(iterator.FromSeq(xs))
	}
}

func mkIter[T any](kind int, xs []T) fp.Iterator[T] {
	switch kind {
	case 0:
		return iterator.FromSeq(xs)
	case 1:
		return iterator.FromList(mkList(1, xs))
	default:
		return iterator.FromSeq(xs).Concat(iterator.Empty[T]())
	}
}

func foldRef[T any](xs []T, m fp.Monoid[T]) T {
	acc := m.Empty()
	for _, x := range xs {
		acc = m.Combine(acc, x)
	}
	return acc
}

// xsOf draws the input sequence: short most of the time, but the code imposes no bound on the length, so
// a quarter of the cases are longer (9..40) or long (41..300).
func xsOf[T any](rt *rapid.T, gen *rapid.Generator[T]) []T {
	lo, hi := 0, 8
	switch rapid.IntRange(0, 11).Draw(rt, "sizeClass") {
	case 0, 1:
		lo, hi = 9, 40
	case 2:
		lo, hi = 41, 300
	}
	return rapid.SliceOfN(gen, lo, hi).Draw(rt, "xs")
}

func reduceChecks[T any](t *testing.T, mname string, m fp.Monoid[T], refCombine func(a, b T) T, refEmpty func() T, gen *rapid.Generator[T], eq func(a, b T) bool, show func(T) string) {
	rule := "input sequence xs (len 0..8, in a quarter of the cases 9..40 or 41..300: nothing in the code bounds the length) of " + mname + " values; oracle: left fold of an independently written Combine from Empty; non-trivial iff len(xs) >= 2; distinct by printed xs"
	ref := func(xs []T) T {
		acc := refEmpty()
		for _, x := range xs {
			acc = refCombine(acc, x)
		}
		return acc
	}
	showS := func(xs []T) string {
		s := "["
		for _, x := range xs {
			s += show(x) + ","
		}
		return s + "]"
	}
	kit.Check(t, "seq.Reduce/"+mname, rule, kit.Opt{}, func(rt *rapid.T, rec *kit.Rec) {
		xs := xsOf(rt, gen)
		rec.Case(len(xs) >= 2, showS(xs))
		var got T
		rec.Guard(rt, "C11|seq.Reduce|"+mname, func() { got = seq.Reduce(xs, m) })
		if want := ref(xs); !eq(got, want) {
			rec.Failf(rt, "C11|seq.Reduce|"+mname, "seq.Reduce(%s) = %s, left fold = %s", showS(xs), show(got), show(want))
		}
	})
	kit.Check(t, "iterator.Reduce/"+mname, rule+"; iterator kind drawn", kit.Opt{}, func(rt *rapid.T, rec *kit.Rec) {
		xs := xsOf(rt, gen)
		kind := rapid.IntRange(0, 2).Draw(rt, "kind")
		rec.Case(len(xs) >= 2, fmt.Sprintf("k%d%s", kind, showS(xs)))
		var got T
		rec.Guard(rt, "C11|iterator.Reduce|"+mname, func() { got = iterator.Reduce(mkIter(kind, xs), m) })
		if want := ref(xs); !eq(got, want) {
			rec.Failf(rt, "C11|iterator.Reduce|"+mname, "iterator.Reduce(%s) = %s, left fold = %s", showS(xs), show(got), show(want))
		}
	})
	kit.Check(t, "list.Reduce/"+mname, rule+"; list kind drawn (slice, cons, lazy, collected)", kit.Opt{}, func(rt *rapid.T, rec *kit.Rec) {
		xs := xsOf(rt, gen)
		kind := rapid.IntRange(0, 3).Draw(rt, "kind")
		rec.Case(len(xs) >= 2, fmt.Sprintf("k%d%s", kind, showS(xs)))
		var got T
		rec.Guard(rt, "C11|list.Reduce|"+mname, func() { got = list.Reduce(mkList(kind, xs), m) })
		if want := ref(xs); !eq(got, want) {
			rec.Failf(rt, "C11|list.Reduce|"+mname, "list.Reduce(%s) = %s, left fold = %s", showS(xs), show(got), show(want))
		}
	})
	kit.Check(t, "agree/"+mname, rule+"; seq/iterator/list Reduce and FoldMap(id) compared with one another", kit.Opt{}, func(rt *rapid.T, rec *kit.Rec) {
		xs := xsOf(rt, gen)
		rec.Case(len(xs) >= 2, showS(xs))
		var a, b, c, d, e T
		rec.Guard(rt, "C11|agree|"+mname, func() {
			a = seq.Reduce(xs, m)
			b = iterator.Reduce(mkIter(0, xs), m)
			c = list.Reduce(mkList(2, xs), m)
			d = seq.FoldMap(xs, m, fp.Id[T])
			e = list.FoldMap(mkList(1, xs), m, fp.Id[T])
		})
		if !eq(a, b) || !eq(a, c) || !eq(a, d) || !eq(a, e) {
			rec.Failf(rt, "C11|agree|"+mname, "xs=%s: seq.Reduce=%s iterator.Reduce=%s list.Reduce=%s seq.FoldMap=%s list.FoldMap=%s", showS(xs), show(a), show(b), show(c), show(d), show(e))
		}
	})
}

func TestReduce(t *testing.T) {
	str := kit.SmallString()
	reduceChecks(t, "String", monoid.String, func(a, b string) string { return a + b }, func() string { return "" }, rapid.SampledFrom([]string{"a", "b", "c", "", "ab"}), ceq[string], sprint[string])
	reduceChecks(t, "Sum", monoid.Sum[int](), func(a, b int) int { return a + b }, func() int { return 0 }, kit.TinyInt(), ceq[int], sprint[int])
	reduceChecks(t, "Product", monoid.Product[int](), func(a, b int) int { return a * b }, func() int { return 1 }, rapid.IntRange(-2, 4), ceq[int], sprint[int])
	reduceChecks(t, "MergeSeq", monoid.MergeSeq[int](), func(a, b fp.Seq[int]) fp.Seq[int] { return append(append(fp.Seq[int]{}, a...), b...) }, func() fp.Seq[int] { return nil },
		rapid.Map(kit.IntSlice(2), func(s []int) fp.Seq[int] { return s }), func(a, b fp.Seq[int]) bool { return eqSliceNilEmpty(a, b) }, sprint[fp.Seq[int]])
	reduceChecks(t, "Endo", monoid.Endo[int](), func(a, b fp.Endo[int]) fp.Endo[int] { return func(x int) int { return a(b(x)) } }, func() fp.Endo[int] { return fp.Id[int] }, genEndo(), eqEndo, showEndo)
	reduceChecks(t, "Dual(String)", monoid.Dual(monoid.String), func(a, b fp.Dual[string]) fp.Dual[string] { return fp.Dual[string]{GetDual: b.GetDual + a.GetDual} }, func() fp.Dual[string] { return fp.Dual[string]{} },
		rapid.Map(rapid.SampledFrom([]string{"a", "b", "c", ""}), as.Dual[string]), ceq[fp.Dual[string]], sprint[fp.Dual[string]])
	reduceChecks(t, "All", monoid.All, func(a, b bool) bool { return a && b }, func() bool { return true }, rapid.Bool(), ceq[bool], sprint[bool])
	reduceChecks(t, "Any", monoid.Any, func(a, b bool) bool { return a || b }, func() bool { return false }, rapid.Bool(), ceq[bool], sprint[bool])
	_ = str

	// Reduce / FoldMap over elements that are VIEWS of one shared buffer (prefixes buf[:k], the rest of the
	// buffer is their spare capacity) - e.g. the rows of a table read into one array. A Combine that appends
	// in place writes into that buffer: the left fold from Empty owns its accumulator, but a fold that passes
	// an ELEMENT as the left operand (the right folds behind list.Reduce / list.FoldMap) rewrites the other
	// elements. Added after an independently seeded change (MergeSeq: append(a, b...)).
	kit.Check(t, "Reduce+FoldMap/MergeSeq+MergeSlice/shared-buffer-views", "0..6 prefix lengths k_i in 0..4 over a fresh buffer [0,1,..,9]; elements buf[:k_i]; seq/iterator/list Reduce and seq/list FoldMap(id) with MergeSeq and MergeSlice, each on freshly made views; oracle: concatenation of prefix COPIES; non-trivial iff >= 2 non-empty elements; distinct by printed lengths and list/iterator kinds",
		kit.Opt{}, func(rt *rapid.T, rec *kit.Rec) {
			ks := rapid.SliceOfN(rapid.IntRange(0, 4), 0, 6).Draw(rt, "ks")
			lk, ik := rapid.IntRange(0, 3).Draw(rt, "listKind"), rapid.IntRange(0, 2).Draw(rt, "iterKind")
			nonEmpty := 0
			want := []int{}
			for _, k := range ks {
				if k > 0 {
					nonEmpty++
				}
				for j := 0; j < k; j++ {
					want = append(want, j)
				}
			}
			rec.Case(nonEmpty >= 2, fmt.Sprintf("ks=%v list k%d iter k%d", ks, lk, ik))
			views := func() []fp.Seq[int] {
				buf := []int{0, 1, 2, 3, 4, 5, 6, 7, 8, 9}
				vs := make([]fp.Seq[int], len(ks))
				for i, k := range ks {
					vs[i] = buf[:k]
				}
				return vs
			}
			slices := func() [][]int {
				vs := views()
				r := make([][]int, len(vs))
				for i := range vs {
					r[i] = vs[i]
				}
				return r
			}
			ms, ml := monoid.MergeSeq[int](), monoid.MergeSlice[int]()
			runs := []struct {
				name string
				run  func() []int
			}{
				{"seq.Reduce(MergeSeq)", func() []int { return seq.Reduce(views(), ms) }},
				{"iterator.Reduce(MergeSeq)", func() []int { return iterator.Reduce(mkIter(ik, views()), ms) }},
				{"list.Reduce(MergeSeq)", func() []int { return list.Reduce(mkList(lk, views()), ms) }},
				{"seq.FoldMap(MergeSeq)", func() []int { return seq.FoldMap(views(), ms, fp.Id[fp.Seq[int]]) }},
				{"list.FoldMap(MergeSeq)", func() []int { return list.FoldMap(mkList(lk, views()), ms, fp.Id[fp.Seq[int]]) }},
				{"seq.Reduce(MergeSlice)", func() []int { return seq.Reduce(slices(), ml) }},
				{"list.Reduce(MergeSlice)", func() []int { return list.Reduce(mkList(lk, slices()), ml) }},
				{"list.FoldMap(MergeSlice)", func() []int { return list.FoldMap(mkList(lk, slices()), ml, fp.Id[[]int]) }},
			}
			for _, r := range runs {
				var got []int
				sig := "C11|" + r.name + "|shared-buffer-views"
				rec.Guard(rt, sig, func() { got = r.run() })
				if !eqSliceNilEmpty(got, want) {
					rec.Failf(rt, sig, "%s over the prefixes of lengths %v of one buffer [0..9] = %v, the concatenation is %v", r.name, ks, got, want)
				}
			}
		})

	// FoldMap with a mapping function
	rule := "xs ints (len 0..8, in a quarter of the cases 9..40 or 41..300), table function f: int -> string / Seq; oracle: left fold of Combine(acc, f(x)) from Empty; non-trivial iff len(xs) >= 2"
	kit.Check(t, "seq.FoldMap/String", rule, kit.Opt{}, func(rt *rapid.T, rec *kit.Rec) {
		xs := kit.IntSliceWide(8).Draw(rt, "xs")
		f := kit.IntFnGen().Draw(rt, "f")
		fs := func(x int) string { return strconv.Itoa(f.Call(x)) + "," }
		rec.Case(len(xs) >= 2, fmt.Sprintf("%v %v", xs, f))
		want := ""
		for _, x := range xs {
			want += fs(x)
		}
		var got string
		rec.Guard(rt, "C11|seq.FoldMap|String", func() { got = seq.FoldMap(xs, monoid.String, fs) })
		if got != want {
			rec.Failf(rt, "C11|seq.FoldMap|String", "seq.FoldMap(%v) = %q want %q", xs, got, want)
		}
	})
	kit.Check(t, "list.FoldMap/String", rule+"; list kind drawn", kit.Opt{}, func(rt *rapid.T, rec *kit.Rec) {
		xs := kit.IntSliceWide(8).Draw(rt, "xs")
		f := kit.IntFnGen().Draw(rt, "f")
		kind := rapid.IntRange(0, 3).Draw(rt, "kind")
		fs := func(x int) string { return strconv.Itoa(f.Call(x)) + "," }
		rec.Case(len(xs) >= 2, fmt.Sprintf("k%d %v %v", kind, xs, f))
		want := ""
		for _, x := range xs {
			want += fs(x)
		}
		var got string
		rec.Guard(rt, "C11|list.FoldMap|String", func() { got = list.FoldMap(mkList(kind, xs), monoid.String, fs) })
		if got != want {
			rec.Failf(rt, "C11|list.FoldMap|String", "list.FoldMap(%v) = %q want %q", xs, got, want)
		}
	})
	kit.Check(t, "list.FoldMap/Dual(Endo)", rule+"; FoldLeftUsingMap/FoldRightUsingMap/FoldLeft against plain folds with a non-commutative step", kit.Opt{}, func(rt *rapid.T, rec *kit.Rec) {
		xs := kit.IntSliceWide(8).Draw(rt, "xs")
		kind := rapid.IntRange(0, 3).Draw(rt, "kind")
		rec.Case(len(xs) >= 2, fmt.Sprintf("k%d %v", kind, xs))
		step := func(acc string, x int) string { return "(" + acc + strconv.Itoa(x) + ")" }
		stepR := func(x int, acc string) string { return "(" + strconv.Itoa(x) + acc + ")" }
		wantL := "z"
		for _, x := range xs {
			wantL = step(wantL, x)
		}
		wantR := "z"
		for i := len(xs) - 1; i >= 0; i-- {
			wantR = stepR(xs[i], wantR)
		}
		var l1, l2, r1, l3 string
		rec.Guard(rt, "C11|list.FoldUsingMap", func() {
			l1 = list.FoldLeftUsingMap(mkList(kind, xs), "z", step)
			l2 = list.FoldLeft(mkList(kind, xs), "z", step)
			r1 = list.FoldRightUsingMap(mkList(kind, xs), "z", stepR)
			l3 = list.Fold(mkList(kind, xs), "z", step)
		})
		if l1 != wantL || l2 != wantL || l3 != wantL || r1 != wantR {
			rec.Failf(rt, "C11|list.FoldUsingMap", "xs=%v FoldLeftUsingMap=%s FoldLeft=%s Fold=%s want %s; FoldRightUsingMap=%s want %s", xs, l1, l2, l3, wantL, r1, wantR)
		}
	})
}
