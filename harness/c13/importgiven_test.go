package c13

import (
	"fmt"
	"strings"
	"testing"
	"time"

	"pgregory.net/rapid"

	"verifharness/kit"
)

// Several `// @fp.ImportGiven` directives for one typeclass, each importing a package that offers an instance
// of the same name for the same type. Which of them wins is the generator's business; that it is the SAME one
// in every run is C13's. (Added after an independently seeded change that collected the directives in a Go
// map before loading the packages: the winner followed the map's iteration order.)
func importGivenCheck(t *testing.T, env *scratchEnv) {
	kit.Check(t, "scratch/determinism-import-given",
		"scratch module: working package `pa` with one @fp.Value struct (fields int64, bool, string, optionally more) deriving Monoid and/or Ord, and 2-5 `// @fp.ImportGiven` directives (drawn order) importing packages p1..p5 that each declare competing instances (Int64 / MonoidInt64 for fp.Monoid[int64], Bool / OrdBool for fp.Ord[bool]) with package-specific behaviour; gombok (built from the tree) run on three identical copies with GOMAXPROCS=1/16/default and once more on top of its own output; non-trivial iff gombok accepted the package and wrote >= 1 non-empty file; distinct by source text",
		kit.Opt{MinChecks: 2, HangAfter: 20 * time.Minute},
		func(rt *rapid.T, rec *kit.Rec) {
			k := rapid.IntRange(2, 5).Draw(rt, "packages")
			order := rapid.Permutation([]int{1, 2, 3, 4, 5}[:k]).Draw(rt, "directiveOrder")
			monoid := rapid.IntRange(0, 3).Draw(rt, "deriveMonoid") != 0
			ord := !monoid || rapid.Bool().Draw(rt, "deriveOrd")
			prefixed := rapid.Bool().Draw(rt, "prefixedNames")
			extraFields := rapid.IntRange(0, 3).Draw(rt, "extraFields")
			extra := map[string]string{}
			for i := 1; i <= k; i++ {
				mi, ob := "Int64", "Bool"
				if prefixed {
					mi, ob = "MonoidInt64", "OrdBool"
				}
				extra[fmt.Sprintf("p%d/inst.go", i)] = fmt.Sprintf(`package p%d

import (
	"github.com/csgura/fp"
	"github.com/csgura/fp/monoid"
	"github.com/csgura/fp/ord"
)

// Derives names this package in @fp.ImportGiven directives
type Derives[T any] interface{}

var %s = monoid.New(func() int64 { return %d }, func(a, b int64) int64 { return a + b + %d })

var %s fp.Ord[bool] = ord.New(fp.EqGiven[bool](), func(a, b bool) bool { return %d%%2 == 0 && !a && b })
`, i, mi, i, i, ob, i)
			}
			var sb strings.Builder
			sb.WriteString("package pa\n\nimport (\n\t\"github.com/csgura/fp\"\n\t\"github.com/csgura/fp/monoid\"\n\t\"github.com/csgura/fp/ord\"\n")
			for i := 1; i <= k; i++ {
				fmt.Fprintf(&sb, "\t\"scratch/p%d\"\n", i)
			}
			sb.WriteString(")\n\nvar _ = monoid.String\nvar _ = ord.Given[int]\n\n")
			for _, i := range order {
				if monoid {
					fmt.Fprintf(&sb, "// @fp.ImportGiven\nvar _ p%d.Derives[fp.Monoid[any]]\n\n", i)
				}
				if ord {
					fmt.Fprintf(&sb, "// @fp.ImportGiven\nvar _ p%d.Derives[fp.Ord[any]]\n\n", i)
				}
			}
			sb.WriteString("// @fp.Value\ntype T struct {\n\tn int64\n\tb bool\n\ts string\n")
			for j := 0; j < extraFields; j++ {
				fmt.Fprintf(&sb, "\tx%d %s\n", j, []string{"int64", "bool", "string"}[j%3])
			}
			sb.WriteString("}\n\n")
			if monoid {
				sb.WriteString("// @fp.Derive\nvar _ monoid.Derives[fp.Monoid[T]]\n\n// there is no monoid for bool anywhere else\nvar MonoidBool = monoid.Any\n\n")
			}
			if ord {
				sb.WriteString("// @fp.Derive\nvar _ ord.Derives[fp.Ord[T]]\n\n")
			}
			env.extra = extra
			env.decide(rt, rec, "C13|scratch-import-given", sb.String(), func() {
				rec.Label(fmt.Sprintf("imported-packages:%d", k))
				if monoid {
					rec.Label("derive:Monoid")
				}
				if ord {
					rec.Label("derive:Ord")
				}
			})
		})
}

// Several instance functions of one rank for the same type, found by TYPE (their names are not the canonical
// EqBox), declared in different source files of the working package: which of them a derived instance calls is
// the generator's business; that it is the same one in every run is C13's. (Added after an independently seeded
// change that broke ties between equally ranked instances by token.Pos, which is not ordered across the files
// of a package.)
func tiedInstancesCheck(t *testing.T, env *scratchEnv) {
	kit.Check(t, "scratch/determinism-tied-instances",
		"scratch module: working package `pa` with a hand-written generic type Box[T], 2-6 instance functions EqBox<X>[T](fp.Eq[T]) fp.Eq[Box[T]] (and optionally ShowBox<X>) with non-canonical names, each in a source file of its own (drawn names sorting before and after types.go), and 1-2 @fp.Value structs with Box[int] / Box[string] fields deriving Eq (and Show); gombok (built from the tree) run on three identical copies with GOMAXPROCS=1/16/default and once more on top of its own output; non-trivial iff gombok accepted the package and wrote >= 1 non-empty file; distinct by source text",
		kit.Opt{MinChecks: 2, HangAfter: 20 * time.Minute},
		func(rt *rapid.T, rec *kit.Rec) {
			k := rapid.IntRange(2, 6).Draw(rt, "candidates")
			files := rapid.Permutation([]string{"a_inst.go", "b.go", "inst_m.go", "u.go", "zz.go", "c_more.go", "x.go"}).Draw(rt, "files")[:k]
			names := rapid.Permutation([]string{"A", "B", "Left", "Right", "Zed", "Mid", "Q"}).Draw(rt, "names")[:k]
			withShow := rapid.Bool().Draw(rt, "show")
			extra := map[string]string{}
			for i := 0; i < k; i++ {
				var sb strings.Builder
				sb.WriteString("package pa\n\nimport (\n\t\"github.com/csgura/fp\"\n\t\"github.com/csgura/fp/eq\"\n\t\"github.com/csgura/fp/show\"\n)\n\nvar _ = show.String\n\n")
				fmt.Fprintf(&sb, "// candidate %d\nfunc EqBox%s[T any](e fp.Eq[T]) fp.Eq[Box[T]] {\n\treturn eq.New(func(a, b Box[T]) bool { return e.Eqv(a.V, b.V) && %d > 0 })\n}\n\n", i+1, names[i], i+1)
				if withShow {
					fmt.Fprintf(&sb, "func ShowBox%s[T any](s fp.Show[T]) fp.Show[Box[T]] {\n\treturn show.New(func(b Box[T]) string { return \"box%d(\" + s.Show(b.V) + \")\" })\n}\n", names[i], i+1)
				}
				extra["pa/"+files[i]] = sb.String()
			}
			var sb strings.Builder
			sb.WriteString("package pa\n\nimport (\n\t\"github.com/csgura/fp\"\n\t\"github.com/csgura/fp/eq\"\n\t\"github.com/csgura/fp/show\"\n)\n\nvar _ = eq.String\nvar _ = show.String\n\n// Box is hand-written; its instances are the functions in the other files\ntype Box[T any] struct {\n\tV T\n}\n\n")
			ns := rapid.IntRange(1, 2).Draw(rt, "structs")
			for i := 1; i <= ns; i++ {
				fmt.Fprintf(&sb, "// @fp.Value\ntype H%d struct {\n\titem Box[%s]\n\tn    int\n", i, []string{"int", "string"}[i-1])
				if rapid.Bool().Draw(rt, "second") {
					fmt.Fprintf(&sb, "\tmore Box[%s]\n", []string{"string", "int"}[i-1])
				}
				sb.WriteString("}\n\n")
				fmt.Fprintf(&sb, "// @fp.Derive\nvar _ eq.Derives[fp.Eq[H%d]]\n\n", i)
				if withShow {
					fmt.Fprintf(&sb, "// @fp.Derive\nvar _ show.Derives[fp.Show[H%d]]\n\n", i)
				}
			}
			env.extra = extra
			env.decide(rt, rec, "C13|scratch-tied-instances", sb.String(), func() {
				rec.Label(fmt.Sprintf("candidates:%d", k))
				if withShow {
					rec.Label("derive:Show")
				}
			})
		})
}
