package c13

import (
	"fmt"
	"strings"
	"testing"
	"time"

	"pgregory.net/rapid"

	"verifharness/kit"
)

// Several `// @fp.ImportGiven` directives for one typeclass, each importing a package that offers an instance
// of the same name for the same type. Which of them wins is the generator's business; that it is the SAME one
// in every run is C13's. (Added after an independently seeded change that collected the directives in a Go
// map before loading the packages: the winner followed the map's iteration order.)
func importGivenCheck(t *testing.T, env *scratchEnv) {
	kit.Check(t, "scratch/determinism-import-given",
		"scratch module: working package `pa` with one @fp.Value struct (fields int64, bool, string, optionally more) deriving Monoid and/or Ord, and 2-5 `// @fp.ImportGiven` directives (drawn order) importing packages p1..p5 that each declare competing instances (Int64 / MonoidInt64 for fp.Monoid[int64], Bool / OrdBool for fp.Ord[bool]) with package-specific behaviour; gombok (built from the tree) run on three identical copies with GOMAXPROCS=1/16/default and once more on top of its own output; non-trivial iff gombok accepted the package and wrote >= 1 non-empty file; distinct by source text",
		kit.Opt{MinChecks: 2, HangAfter: 20 * time.Minute},
		func(rt *rapid.T, rec *kit.Rec) {
			k := rapid.IntRange(2, 5).Draw(rt, "packages")
			order := rapid.Permutation([]int{1, 2, 3, 4, 5}[:k]).Draw(rt, "directiveOrder")
			monoid := rapid.IntRange(0, 3).Draw(rt, "deriveMonoid") != 0
			ord := !monoid || rapid.Bool().Draw(rt, "deriveOrd")
			prefixed := rapid.Bool().Draw(rt, "prefixedNames")
			extraFields := rapid.IntRange(0, 3).Draw(rt, "extraFields")
			extra := map[string]string{}
			for i := 1; i <= k; i++ {
				mi, ob := "Int64", "Bool"
				if prefixed {
					mi, ob = "MonoidInt64", "OrdBool"
				}
				extra[fmt.Sprintf("p%d/inst.go", i)] = fmt.Sprintf(`package p%d

import (
	"github.com/csgura/fp"
	"github.com/csgura/fp/monoid"
	"github.com/csgura/fp/ord"
)

// Derives names this package in @fp.ImportGiven directives
type Derives[T any] interface{}

var %s = monoid.New(func() int64 { return %d }, func(a, b int64) int64 { return a + b + %d })

var %s fp.Ord[bool] = ord.New(fp.EqGiven[bool](), func(a, b bool) bool { return %d%%2 == 0 && !a && b })
`, i, mi, i, i, ob, i)
			}
			var sb strings.Builder
			sb.WriteString("package pa\n\nimport (\n\t\"github.com/csgura/fp\"\n\t\"github.com/csgura/fp/monoid\"\n\t\"github.com/csgura/fp/ord\"\n")
			for i := 1; i <= k; i++ {
				fmt.Fprintf(&sb, "\t\"scratch/p%d\"\n", i)
			}
			sb.WriteString(")\n\nvar _ = monoid.String\nvar _ = ord.Given[int]\n\n")
			for _, i := range order {
				if monoid {
					fmt.Fprintf(&sb, "// @fp.ImportGiven\nvar _ p%d.Derives[fp.Monoid[any]]\n\n", i)
				}
				if ord {
					fmt.Fprintf(&sb, "// @fp.ImportGiven\nvar _ p%d.Derives[fp.Ord[any]]\n\n", i)
				}
			}
			sb.WriteString("// @fp.Value\ntype T struct {\n\tn int64\n\tb bool\n\ts string\n")
			for j := 0; j < extraFields; j++ {
				fmt.Fprintf(&sb, "\tx%d %s\n", j, []string{"int64", "bool", "string"}[j%3])
			}
			sb.WriteString("}\n\n")
			if monoid {
				sb.WriteString("// @fp.Derive\nvar _ monoid.Derives[fp.Monoid[T]]\n\n// there is no monoid for bool anywhere else\nvar MonoidBool = monoid.Any\n\n")
			}
			if ord {
				sb.WriteString("// @fp.Derive\nvar _ ord.Derives[fp.Ord[T]]\n\n")
			}
			env.extra = extra
			env.decide(rt, rec, "C13|scratch-import-given", sb.String(), func() {
				rec.Label(fmt.Sprintf("imported-packages:%d", k))
				if monoid {
					rec.Label("derive:Monoid")
				}
				if ord {
					rec.Label("derive:Ord")
				}
			})
		})
}
