// Package c13 checks that the repository's code generators are deterministic
// and that the committed generated code is their fixpoint.
//
// Everything here runs external processes (the generators built from the tree
// under test) on scratch copies that live under os.TempDir(); nothing is ever
// written below the tree under test or below /verif.
package c13

import (
	"verifharness/scratch"

	"bytes"
	"context"
	"fmt"
	"io/fs"
	"os"
	"os/exec"
	"path/filepath"
	"regexp"
	"runtime"
	"sort"
	"strings"
	"sync"
	"syscall"
	"testing"
	"time"

	"verifharness/kit"
)

func TestMain(m *testing.M) { kit.Main(m) }

// repoPath is the tree under test.
func repoPath() string {
	if p := os.Getenv("VERIF_REPO"); p != "" {
		if abs, err := filepath.Abs(p); err == nil {
			return abs
		}
		return p
	}
	return "/repo"
}

// ---- environment of child processes -------------------------------------------

// Variables that are set explicitly for every child process.
var envOverridden = map[string]bool{
	"GOFLAGS": true, "GOPROXY": true, "GOSUMDB": true, "GOTOOLCHAIN": true, "GONOSUMDB": true, "GONOSUMCHECK": true,
	"GOMAXPROCS": true, "GOPACKAGE": true, "GOFILE": true, "GOLINE": true, "GOARCH": true, "GOOS": true, "DOLLAR": true,
	"PWD": true, "GOWORK": true,
}

// childEnv is the environment of go commands and generators.
//
// -trimpath makes the compile cache entries of the packages in a scratch copy
// independent of the (random) directory of the copy, so that all scratch copies
// of one tree share their export data and repeated ./check runs do not fill
// GOCACHE with one set of objects per temp directory. It has no influence on
// what go/packages hands to a generator for the package in the current
// directory (that one is always parsed and type-checked from source).
func childEnv(extra ...string) []string {
	env := []string{}
	for _, kv := range os.Environ() {
		k := kv
		if i := strings.IndexByte(kv, '='); i >= 0 {
			k = kv[:i]
		}
		if envOverridden[k] {
			continue
		}
		env = append(env, kv)
	}
	env = append(env, "GOFLAGS=-mod=mod -trimpath", "GOPROXY=off", "GOSUMDB=off", "GOTOOLCHAIN=local", "GONOSUMDB=*", "GONOSUMCHECK=1", "GOWORK=off")
	env = append(env, extra...)
	return env
}

type cmdResult struct {
	Out      string
	Exit     int
	TimedOut bool
}

// runCmd runs a command in its own process group (generators start `go list`
// children) and kills the whole group on timeout.
func runCmd(dir string, env []string, timeout time.Duration, name string, args ...string) cmdResult {
	defer scratch.CacheLockShared()()
	ctx, cancel := context.WithTimeout(context.Background(), timeout)
	defer cancel()
	cmd := exec.Command(name, args...)
	cmd.Dir = dir
	cmd.Env = append(append([]string{}, env...), "PWD="+dir)
	cmd.SysProcAttr = &syscall.SysProcAttr{Setpgid: true}
	var buf bytes.Buffer
	cmd.Stdout = &buf
	cmd.Stderr = &buf
	if err := cmd.Start(); err != nil {
		return cmdResult{Out: "cannot start " + name + ": " + err.Error(), Exit: -1}
	}
	done := make(chan error, 1)
	go func() { done <- cmd.Wait() }()
	select {
	case err := <-done:
		code := 0
		if err != nil {
			code = 1
			if ee, ok := err.(*exec.ExitError); ok {
				code = ee.ExitCode()
			}
		}
		out := buf.String()
		if code != 0 && strings.TrimSpace(out) == "" {
			// killed from outside; scratch.ToolchainTrouble recognises the marker
			out = fmt.Sprintf("%s (exit code %d)\n", scratch.DiedSilently, code)
		}
		return cmdResult{Out: out, Exit: code}
	case <-ctx.Done():
		_ = syscall.Kill(-cmd.Process.Pid, syscall.SIGKILL)
		_ = cmd.Process.Kill()
		<-done
		return cmdResult{Out: buf.String(), Exit: -1, TimedOut: true}
	}
}

// withBeat keeps the sub-check's watchdog quiet while f runs external
// commands; every external command has its own timeout, so a real hang still
// ends (as a failure of that command).
func withBeat(rec *kit.Rec, f func()) {
	stop := make(chan struct{})
	var wg sync.WaitGroup
	wg.Add(1)
	go func() {
		defer wg.Done()
		tick := time.NewTicker(5 * time.Second)
		defer tick.Stop()
		for {
			select {
			case <-stop:
				return
			case <-tick.C:
				rec.Beat()
			}
		}
	}()
	defer func() { close(stop); wg.Wait() }()
	f()
}

var rePanic = regexp.MustCompile(`(?m)^(panic: |fatal error: |goroutine \d+ \[running\])`)

func hasPanic(out string) bool { return rePanic.MatchString(out) }

func tail(s string, n int) string {
	lines := strings.Split(strings.TrimRight(s, "\n"), "\n")
	if len(lines) > n {
		lines = append([]string{"…"}, lines[len(lines)-n:]...)
	}
	return strings.Join(lines, "\n")
}

func head(s string, n int) string {
	lines := strings.Split(strings.TrimRight(s, "\n"), "\n")
	if len(lines) > n {
		lines = append(lines[:n], "…")
	}
	return strings.Join(lines, "\n")
}

// ---- in-memory trees --------------------------------------------------------------

type fileEnt struct {
	Data []byte
	Mode fs.FileMode
	Link string // symlink target, if Mode&ModeSymlink != 0
}

func (a fileEnt) same(b fileEnt) bool {
	if (a.Mode&fs.ModeSymlink != 0) != (b.Mode&fs.ModeSymlink != 0) {
		return false
	}
	if a.Mode&fs.ModeSymlink != 0 {
		return a.Link == b.Link
	}
	return bytes.Equal(a.Data, b.Data)
}

// tree maps slash-separated relative paths to regular files and symlinks.
type tree map[string]fileEnt

func (t tree) paths() []string {
	ps := make([]string, 0, len(t))
	for p := range t {
		ps = append(ps, p)
	}
	sort.Strings(ps)
	return ps
}

func (t tree) clone() tree {
	r := make(tree, len(t))
	for k, v := range t {
		r[k] = v
	}
	return r
}

// readTree reads all regular files and symlinks below root, skipping .git.
func readTree(root string) (tree, error) {
	t := tree{}
	err := filepath.WalkDir(root, func(p string, d fs.DirEntry, err error) error {
		if err != nil {
			return err
		}
		rel, rerr := filepath.Rel(root, p)
		if rerr != nil {
			return rerr
		}
		if d.IsDir() {
			if d.Name() == ".git" && rel != "." {
				return filepath.SkipDir
			}
			return nil
		}
		rel = filepath.ToSlash(rel)
		if d.Name() == ".git" { // worktree pointer file
			return nil
		}
		info, ierr := d.Info()
		if ierr != nil {
			return ierr
		}
		switch {
		case info.Mode()&fs.ModeSymlink != 0:
			l, lerr := os.Readlink(p)
			if lerr != nil {
				return lerr
			}
			t[rel] = fileEnt{Mode: info.Mode(), Link: l}
		case info.Mode().IsRegular():
			b, berr := os.ReadFile(p)
			if berr != nil {
				return berr
			}
			t[rel] = fileEnt{Data: b, Mode: info.Mode()}
		}
		return nil
	})
	return t, err
}

var stampTime = time.Unix(1, 0)

// writeTree materialises t below dst. Files carrying a generated-code header
// get mtime 1 so that it can be seen afterwards whether something rewrote them.
func writeTree(t tree, dst string) error {
	made := map[string]bool{}
	for _, rel := range t.paths() {
		e := t[rel]
		p := filepath.Join(dst, filepath.FromSlash(rel))
		dir := filepath.Dir(p)
		if !made[dir] {
			if err := os.MkdirAll(dir, 0o755); err != nil {
				return err
			}
			made[dir] = true
		}
		if e.Mode&fs.ModeSymlink != 0 {
			if err := os.Symlink(e.Link, p); err != nil {
				return err
			}
			continue
		}
		if err := os.WriteFile(p, e.Data, e.Mode.Perm()|0o600); err != nil {
			return err
		}
		if isGenerated(e.Data) {
			if err := os.Chtimes(p, stampTime, stampTime); err != nil {
				return err
			}
		}
	}
	return nil
}

var reGenerated = regexp.MustCompile(`^// Code generated .* DO NOT EDIT\.$`)

// isGenerated implements the Go convention (https://go.dev/s/generatedcode): a
// line comment matching the pattern before the first non-comment, non-blank text.
func isGenerated(data []byte) bool {
	if len(data) > 1<<14 {
		data = data[:1<<14]
	}
	for i, l := range strings.Split(string(data), "\n") {
		if i > 60 {
			return false
		}
		l = strings.TrimRight(l, "\r")
		if strings.TrimSpace(l) == "" {
			continue
		}
		if !strings.HasPrefix(l, "//") {
			return false
		}
		if reGenerated.MatchString(l) {
			return true
		}
	}
	return false
}

func ignoredInComparison(rel string) bool {
	b := rel
	if i := strings.LastIndexByte(rel, '/'); i >= 0 {
		b = rel[i+1:]
	}
	// `-mod=mod` may complete go.sum / go.mod of a scratch copy; neither is generator output.
	return b == "go.sum" || b == "go.mod"
}

type change struct {
	Path string
	Kind string // "modified", "new", "missing"
}

// diffTrees lists the paths whose content differs between want and got.
func diffTrees(want, got tree) []change {
	var cs []change
	for _, p := range want.paths() {
		if ignoredInComparison(p) {
			continue
		}
		g, ok := got[p]
		if !ok {
			cs = append(cs, change{p, "missing"})
		} else if !want[p].same(g) {
			cs = append(cs, change{p, "modified"})
		}
	}
	for _, p := range got.paths() {
		if ignoredInComparison(p) {
			continue
		}
		if _, ok := want[p]; !ok {
			cs = append(cs, change{p, "new"})
		}
	}
	sort.Slice(cs, func(i, j int) bool { return cs[i].Path < cs[j].Path })
	return cs
}

// ---- diff excerpt -----------------------------------------------------------------

// diffExcerpt renders the first hunks of a unified line diff of a and b.
func diffExcerpt(nameA, nameB string, a, b []byte, max int) string {
	return unifiedExcerpt(nameA, nameB, a, b, 2*max)
}

func describeChange(c change, want, got tree, nameWant, nameGot string) string {
	switch c.Kind {
	case "missing":
		return fmt.Sprintf("%s: present in %s (%d bytes), absent in %s (removed and not written again)", c.Path, nameWant, len(want[c.Path].Data), nameGot)
	case "new":
		return fmt.Sprintf("%s: absent in %s, present in %s (%d bytes):\n%s", c.Path, nameWant, nameGot, len(got[c.Path].Data), head(string(got[c.Path].Data), 12))
	default:
		return fmt.Sprintf("%s differs:\n%s", c.Path, diffExcerpt(nameWant+"/"+c.Path, nameGot+"/"+c.Path, want[c.Path].Data, got[c.Path].Data, 12))
	}
}

// ---- findings -------------------------------------------------------------------

type finding struct {
	Sig string
	Msg string
}

// sweepStale removes temp directories of this package that a killed run left
// behind (older than 6 hours; a run never lasts that long).
func sweepStale() {
	ents, err := os.ReadDir(os.TempDir())
	if err != nil {
		return
	}
	for _, e := range ents {
		if !e.IsDir() || !strings.HasPrefix(e.Name(), "verif-c13-") {
			continue
		}
		info, err := e.Info()
		if err != nil {
			continue
		}
		if time.Since(info.ModTime()) > 6*time.Hour {
			_ = os.RemoveAll(filepath.Join(os.TempDir(), e.Name()))
		}
	}
}

var (
	goarch = runtime.GOARCH
	goos   = runtime.GOOS
)
