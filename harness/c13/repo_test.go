package c13

import (
	"verifharness/scratch"

	"bytes"
	"fmt"
	"go/build"
	"go/parser"
	"go/token"
	"io"
	"io/fs"
	"os"
	"path"
	"path/filepath"
	"runtime"
	"sort"
	"strconv"
	"strings"
	"sync"
	"testing"
	"time"

	"verifharness/kit"
)

// ---- go:generate directives ---------------------------------------------------------

type directive struct {
	File   string   // slash-separated path of the file carrying the directive
	Dir    string   // its directory ("." for the module root)
	Line   int      // 1-based
	Pkg    string   // package clause of File
	Words  []string // the command, split and expanded as `go generate` does
	Gen    string   // generator name (last element of the `go run` package, else the command's base name)
	GenDir string   // `go run <package of this module>`: directory of that package in the module ("" otherwise)
	Args   []string // arguments after the package
}

func (d directive) String() string {
	return fmt.Sprintf("%s:%d: %s", d.File, d.Line, strings.Join(d.Words, " "))
}

func modulePath(src tree) string {
	for _, l := range strings.Split(string(src["go.mod"].Data), "\n") {
		f := strings.Fields(l)
		if len(f) >= 2 && f[0] == "module" {
			return strings.Trim(f[1], `"`)
		}
	}
	return ""
}

// splitDirective is cmd/go/internal/generate.(*Generator).split without command
// aliases and variable expansion.
func splitDirective(line string) ([]string, error) {
	var words []string
	line = strings.TrimRight(line, "\r\n")
	line = line[len("//go:generate "):]
Words:
	for {
		line = strings.TrimLeft(line, " \t")
		if len(line) == 0 {
			break
		}
		if line[0] == '"' {
			for i := 1; i < len(line); i++ {
				switch line[i] {
				case '\\':
					if i+1 == len(line) {
						return nil, fmt.Errorf("bad backslash")
					}
					i++
				case '"':
					word, err := strconv.Unquote(line[0 : i+1])
					if err != nil {
						return nil, fmt.Errorf("bad quoted string")
					}
					words = append(words, word)
					line = line[i+1:]
					if len(line) > 0 && line[0] != ' ' && line[0] != '\t' {
						return nil, fmt.Errorf("expect space after quoted argument")
					}
					continue Words
				}
			}
			return nil, fmt.Errorf("mismatched quoted string")
		}
		i := strings.IndexAny(line, " \t")
		if i < 0 {
			i = len(line)
		}
		words = append(words, line[0:i])
		line = line[i:]
	}
	return words, nil
}

// discover finds every directive `go generate ./...` would run in the tree:
// files of the root module's packages that match the build constraints of the
// host, directories named testdata or starting with "." or "_" excluded; per
// directory in the order go generate uses (files by name, test files last).
func discover(src tree) (ds []directive, skipped []string, err error) {
	mod := modulePath(src)
	if mod == "" {
		return nil, nil, fmt.Errorf("no module line in go.mod of the tree under test")
	}
	nested := map[string]bool{} // directories of nested modules
	for p := range src {
		if path.Base(p) == "go.mod" && path.Dir(p) != "." {
			nested[path.Dir(p)] = true
		}
	}
	ctxt := build.Default
	ctxt.OpenFile = func(p string) (io.ReadCloser, error) {
		e, ok := src[filepath.ToSlash(strings.TrimPrefix(p, "/src/"))]
		if !ok {
			return nil, fs.ErrNotExist
		}
		return io.NopCloser(bytes.NewReader(e.Data)), nil
	}
	ctxt.JoinPath = func(elem ...string) string { return path.Join(elem...) }
	var files []string
paths:
	for _, p := range src.paths() {
		if !strings.HasSuffix(p, ".go") || src[p].Mode&fs.ModeSymlink != 0 {
			continue
		}
		dir := path.Dir(p)
		for d := dir; d != "."; d = path.Dir(d) {
			b := path.Base(d)
			if b == "testdata" || strings.HasPrefix(b, ".") || strings.HasPrefix(b, "_") || nested[d] {
				continue paths
			}
		}
		if b := path.Base(p); strings.HasPrefix(b, ".") || strings.HasPrefix(b, "_") {
			continue
		}
		files = append(files, p)
	}
	isTest := func(p string) bool { return strings.HasSuffix(p, "_test.go") }
	sort.SliceStable(files, func(i, j int) bool {
		di, dj := path.Dir(files[i]), path.Dir(files[j])
		if di != dj {
			return di < dj
		}
		if isTest(files[i]) != isTest(files[j]) {
			return !isTest(files[i])
		}
		return files[i] < files[j]
	})
	for _, p := range files {
		data := src[p].Data
		if !bytes.Contains(data, []byte("//go:generate")) {
			continue
		}
		var lines []struct {
			n int
			s string
		}
		for i, l := range strings.Split(string(data), "\n") {
			if strings.HasPrefix(l, "//go:generate ") || strings.HasPrefix(l, "//go:generate\t") {
				lines = append(lines, struct {
					n int
					s string
				}{i + 1, l})
			}
		}
		if len(lines) == 0 {
			continue
		}
		if ok, merr := ctxt.MatchFile("/src/"+path.Dir(p), path.Base(p)); merr != nil || !ok {
			for _, l := range lines {
				skipped = append(skipped, fmt.Sprintf("%s:%d (file excluded by build constraints)", p, l.n))
			}
			continue
		}
		f, perr := parser.ParseFile(token.NewFileSet(), p, data, parser.PackageClauseOnly)
		if perr != nil || f.Name == nil {
			return nil, nil, fmt.Errorf("%s: cannot read package clause: %v", p, perr)
		}
		pkg := f.Name.Name
		aliases := map[string][]string{}
		for _, l := range lines {
			words, werr := splitDirective(strings.Replace(l.s, "//go:generate\t", "//go:generate ", 1))
			if werr != nil {
				return nil, nil, fmt.Errorf("%s:%d: %v", p, l.n, werr)
			}
			if len(words) == 0 {
				continue
			}
			if words[0] == "-command" {
				if len(words) >= 3 {
					aliases[words[1]] = words[2:]
				}
				continue
			}
			if a, ok := aliases[words[0]]; ok {
				words = append(append([]string{}, a...), words[1:]...)
			}
			vars := map[string]string{"GOARCH": runtime.GOARCH, "GOOS": runtime.GOOS, "GOFILE": path.Base(p), "GOLINE": strconv.Itoa(l.n), "GOPACKAGE": pkg, "DOLLAR": "$"}
			for i, w := range words {
				words[i] = os.Expand(w, func(k string) string {
					if v, ok := vars[k]; ok {
						return v
					}
					return os.Getenv(k)
				})
			}
			d := directive{File: p, Dir: path.Dir(p), Line: l.n, Pkg: pkg, Words: words, Gen: path.Base(words[0])}
			if len(words) >= 3 && words[0] == "go" && words[1] == "run" && !strings.HasPrefix(words[2], "-") {
				target := words[2]
				d.Gen = path.Base(target)
				switch {
				case target == mod:
					d.GenDir = "."
				case strings.HasPrefix(target, mod+"/"):
					d.GenDir = strings.TrimPrefix(target, mod+"/")
				case strings.HasPrefix(target, "./") || strings.HasPrefix(target, "../"):
					d.GenDir = path.Join(d.Dir, target)
				}
				if d.GenDir != "" {
					d.Args = words[3:]
				}
			}
			ds = append(ds, d)
		}
	}
	return ds, skipped, nil
}

// ---- workspace --------------------------------------------------------------------

type dirTask struct {
	Dir  string
	Dirs []directive
}

type directiveRun struct {
	D        directive
	Exit     int
	TimedOut bool
	Out      string
	Written  []string // paths (relative to the tree root) created or rewritten by this directive
	NonEmpty int      // of those, non-empty regular files other than go.mod / go.sum
}

type dirResult struct {
	Task    dirTask
	Runs    []directiveRun
	Delta   map[string]*fileEnt // content changes of the private copy against its input (nil = removed)
	Touched map[string]bool     // every path written or removed by one of the directives
	Err     error               // infrastructure problem (cannot write the copy ...)
}

type runResult struct {
	Input     tree
	Merged    tree // input with the changes of all directories applied
	Dirs      []dirResult
	Conflicts []string
	Wall      time.Duration
}

type workspace struct {
	t        *testing.T
	root     string
	src      tree
	mod      string
	dirs     []directive
	skipped  []string
	tasks    []dirTask
	bins     map[string]string // GenDir -> binary
	goroot   string
	setupErr *finding
	setupDur time.Duration
	run1     *runResult
	runSeq   int
}

var genTimeout = 15 * time.Minute

func newWorkspace(t *testing.T, rec *kit.Rec) *workspace {
	w := &workspace{t: t, bins: map[string]string{}}
	start := time.Now()
	fail := func(sig, format string, a ...any) *workspace {
		w.setupErr = &finding{Sig: sig, Msg: fmt.Sprintf(format, a...)}
		return w
	}
	sweepStale()
	root, err := os.MkdirTemp("", "verif-c13-*")
	if err != nil {
		return fail("HARNESS|infra|tempdir", "%v", err)
	}
	w.root = root
	t.Cleanup(func() { _ = os.RemoveAll(root) })
	if w.src, err = readTree(repoPath()); err != nil {
		return fail("HARNESS|infra|read-tree", "reading %s: %v", repoPath(), err)
	}
	w.mod = modulePath(w.src)
	if w.dirs, w.skipped, err = discover(w.src); err != nil {
		return fail("HARNESS|infra|discover", "%v", err)
	}
	byDir := map[string]*dirTask{}
	var order []string
	for _, d := range w.dirs {
		if byDir[d.Dir] == nil {
			byDir[d.Dir] = &dirTask{Dir: d.Dir}
			order = append(order, d.Dir)
		}
		byDir[d.Dir].Dirs = append(byDir[d.Dir].Dirs, d)
	}
	for _, d := range order {
		w.tasks = append(w.tasks, *byDir[d])
	}
	if r := runCmd(root, childEnv(), time.Minute, "go", "env", "GOROOT"); r.Exit == 0 {
		w.goroot = strings.TrimSpace(r.Out)
	}

	// Build every generator of this module once, from a copy of the tree.
	buildDir := filepath.Join(root, "build")
	if err := writeTree(w.src, buildDir); err != nil {
		return fail("HARNESS|infra|copy", "%v", err)
	}
	binDir := filepath.Join(root, "bin")
	if err := os.MkdirAll(binDir, 0o755); err != nil {
		return fail("HARNESS|infra|copy", "%v", err)
	}
	var genDirs []string
	seenBase := map[string]string{}
	for _, d := range w.dirs {
		if d.GenDir == "" {
			continue
		}
		if _, ok := w.bins[d.GenDir]; ok {
			continue
		}
		base := path.Base(d.GenDir)
		if d.GenDir == "." {
			base = path.Base(w.mod)
		}
		if other, clash := seenBase[base]; clash {
			return fail("HARNESS|infra|generator-names", "generators %s and %s have the same base name; not supported by this harness", other, d.GenDir)
		}
		seenBase[base] = d.GenDir
		// genfp.Generate writes path.Base(os.Args[0]) into the header, `go run` names
		// the binary after the package directory: keep that name.
		w.bins[d.GenDir] = filepath.Join(binDir, base)
		genDirs = append(genDirs, d.GenDir)
	}
	sort.Strings(genDirs)
	if len(genDirs) > 0 {
		args := []string{"build", "-o", binDir + string(filepath.Separator)}
		for _, g := range genDirs {
			args = append(args, "./"+g)
		}
		var r cmdResult
		withBeat(rec, func() { r = runCmd(buildDir, childEnv(), genTimeout, "go", args...) })
		if r.Exit != 0 && scratch.ToolchainTrouble(r.Out) {
			return fail("HARNESS|infra|toolchain-trouble", "go %s: %s", strings.Join(args, " "), tail(r.Out, 10))
		}
		if r.Exit != 0 {
			return fail("C13|repo|generator-build-failed", "go %s (in a copy of the tree) failed with exit status %d:\n%s", strings.Join(args, " "), r.Exit, tail(r.Out, 40))
		}
		for g, b := range w.bins {
			if _, err := os.Stat(b); err != nil {
				return fail("C13|repo|generator-build-failed", "go build produced no binary for ./%s (%v)", g, err)
			}
		}
	}
	// Compile the packages the generators will load, once and with all cores,
	// instead of letting 16 concurrent `go list -export` calls race for them.
	if len(w.tasks) > 0 {
		args := []string{"list", "-e", "-export", "-f", "{{.ImportPath}}"}
		for _, tk := range w.tasks {
			args = append(args, "./"+tk.Dir)
		}
		withBeat(rec, func() { runCmd(buildDir, childEnv(), genTimeout, "go", args...) })
	}
	_ = os.RemoveAll(buildDir)
	w.setupDur = time.Since(start)
	return w
}

type stamp struct {
	mod  time.Time
	size int64
}

func statAll(root string) map[string]stamp {
	m := map[string]stamp{}
	_ = filepath.WalkDir(root, func(p string, d fs.DirEntry, err error) error {
		if err != nil || d.IsDir() {
			return nil
		}
		info, ierr := d.Info()
		if ierr != nil {
			return nil
		}
		rel, _ := filepath.Rel(root, p)
		m[filepath.ToSlash(rel)] = stamp{info.ModTime(), info.Size()}
		return nil
	})
	return m
}

// runDir runs the directives of one directory, in file order, in a private copy
// of the input tree. A private copy per directory means that no generator ever
// loads a package whose generated files another generator is rewriting at that
// moment (something sequential `go generate ./...` cannot run into either).
func (w *workspace) runDir(input tree, task dirTask, copyDir string, gomaxprocs string) dirResult {
	res := dirResult{Task: task, Delta: map[string]*fileEnt{}, Touched: map[string]bool{}}
	defer os.RemoveAll(copyDir)
	if err := writeTree(input, copyDir); err != nil {
		res.Err = err
		return res
	}
	before := statAll(copyDir)
	for _, d := range task.Dirs {
		cwd := filepath.Join(copyDir, filepath.FromSlash(d.Dir))
		extra := []string{"GOPACKAGE=" + d.Pkg, "GOFILE=" + path.Base(d.File), "GOLINE=" + strconv.Itoa(d.Line), "GOARCH=" + runtime.GOARCH, "GOOS=" + runtime.GOOS, "DOLLAR=$"}
		if gomaxprocs != "" {
			extra = append(extra, "GOMAXPROCS="+gomaxprocs)
		}
		if w.goroot != "" {
			extra = append(extra, "GOROOT="+w.goroot, "PATH="+filepath.Join(w.goroot, "bin")+string(os.PathListSeparator)+os.Getenv("PATH"))
		}
		var r cmdResult
		if d.GenDir != "" {
			r = runCmd(cwd, childEnv(extra...), genTimeout, w.bins[d.GenDir], d.Args...)
		} else {
			r = runCmd(cwd, childEnv(extra...), genTimeout, d.Words[0], d.Words[1:]...)
		}
		dr := directiveRun{D: d, Exit: r.Exit, TimedOut: r.TimedOut, Out: r.Out}
		after := statAll(copyDir)
		for p, s := range after {
			if b, ok := before[p]; !ok || !b.mod.Equal(s.mod) {
				dr.Written = append(dr.Written, p)
				res.Touched[p] = true
				if s.size > 0 && !ignoredInComparison(p) {
					dr.NonEmpty++
				}
			}
		}
		for p := range before {
			if _, ok := after[p]; !ok {
				res.Touched[p] = true
			}
		}
		sort.Strings(dr.Written)
		before = after
		res.Runs = append(res.Runs, dr)
	}
	out, err := readTree(copyDir)
	if err != nil {
		res.Err = err
		return res
	}
	for p, e := range out {
		if in, ok := input[p]; !ok || !in.same(e) {
			e := e
			res.Delta[p] = &e
		}
	}
	for p := range input {
		if _, ok := out[p]; !ok {
			res.Delta[p] = nil
		}
	}
	return res
}

// runAll runs every directive of the tree once on input.
func (w *workspace) runAll(rec *kit.Rec, input tree, gomaxprocs string) *runResult {
	w.runSeq++
	start := time.Now()
	runRoot := filepath.Join(w.root, fmt.Sprintf("run%d", w.runSeq))
	res := &runResult{Input: input, Dirs: make([]dirResult, len(w.tasks))}
	// longest first: directories with gombok directives, then the rest
	idx := make([]int, len(w.tasks))
	for i := range idx {
		idx[i] = i
	}
	weight := func(tk dirTask) int {
		n := 0
		for _, d := range tk.Dirs {
			if d.Gen == "gombok" {
				n += 4
			} else {
				n++
			}
		}
		return n
	}
	sort.SliceStable(idx, func(a, b int) bool { return weight(w.tasks[idx[a]]) > weight(w.tasks[idx[b]]) })
	workers := runtime.NumCPU()
	if workers > 16 {
		workers = 16
	}
	if workers < 1 {
		workers = 1
	}
	ch := make(chan int)
	var wg sync.WaitGroup
	withBeat(rec, func() {
		for k := 0; k < workers; k++ {
			wg.Add(1)
			go func() {
				defer wg.Done()
				for i := range ch {
					res.Dirs[i] = w.runDir(input, w.tasks[i], filepath.Join(runRoot, fmt.Sprintf("d%02d", i)), gomaxprocs)
				}
			}()
		}
		for _, i := range idx {
			ch <- i
		}
		close(ch)
		wg.Wait()
	})
	_ = os.RemoveAll(runRoot)
	res.Merged = input.clone()
	owner := map[string]string{}
	for _, dr := range res.Dirs {
		ps := make([]string, 0, len(dr.Delta))
		for p := range dr.Delta {
			ps = append(ps, p)
		}
		sort.Strings(ps)
		for _, p := range ps {
			if ignoredInComparison(p) {
				continue
			}
			e := dr.Delta[p]
			if prev, ok := owner[p]; ok {
				cur, has := res.Merged[p]
				if (e == nil) != !has || (e != nil && !cur.same(*e)) {
					res.Conflicts = append(res.Conflicts, fmt.Sprintf("%s is changed differently by the directives of %s and of %s", p, prev, dr.Task.Dir))
				}
			}
			owner[p] = dr.Task.Dir
			if e == nil {
				delete(res.Merged, p)
			} else {
				res.Merged[p] = *e
			}
		}
	}
	res.Wall = time.Since(start)
	return res
}

// generatorFailures: clause (c), exit status 0 and no panic output.
func generatorFailures(r *runResult) []finding {
	var fs []finding
	for _, dr := range r.Dirs {
		if dr.Err != nil {
			fs = append(fs, finding{"HARNESS|infra|copy:" + dr.Task.Dir, dr.Err.Error()})
			continue
		}
		seen := map[string]bool{}
		for _, run := range dr.Runs {
			if run.Exit == 0 && !hasPanic(run.Out) {
				continue
			}
			if seen[run.D.Gen] {
				continue
			}
			seen[run.D.Gen] = true
			why := fmt.Sprintf("exit status %d", run.Exit)
			if run.TimedOut {
				why = fmt.Sprintf("killed after %v", genTimeout)
			} else if run.Exit == 0 {
				why = "exit status 0 but panic output"
			}
			if scratch.ToolchainTrouble(run.Out) || run.TimedOut {
				// the environment failed under the generator (build cache trimmed by another process, disk,
				// memory) or the machine was too busy: nothing decided about the generator
				fs = append(fs, finding{"HARNESS|infra|toolchain-trouble:" + dr.Task.Dir, fmt.Sprintf("directive %s in %s: %s\n%s", run.D, dr.Task.Dir, why, tail(run.Out, 10))})
				continue
			}
			fs = append(fs, finding{
				Sig: fmt.Sprintf("C13|repo|generator-failed:%s:%s", dr.Task.Dir, run.D.Gen),
				Msg: fmt.Sprintf("directive %s run in %s (GOPACKAGE=%s): %s\n%s", run.D, dr.Task.Dir, run.D.Pkg, why, tail(run.Out, 30)),
			})
		}
	}
	for _, c := range r.Conflicts {
		fs = append(fs, finding{"C13|repo|conflict", c})
	}
	return fs
}

func (w *workspace) recordCases(rec *kit.Rec, r *runResult, tag string) (pairs int, files map[string]bool) {
	files = map[string]bool{}
	for _, dr := range r.Dirs {
		var gens []string
		nonEmpty := map[string]int{}
		for _, run := range dr.Runs {
			if _, ok := nonEmpty[run.D.Gen]; !ok {
				gens = append(gens, run.D.Gen)
			}
			nonEmpty[run.D.Gen] += run.NonEmpty
			for _, p := range run.Written {
				if !ignoredInComparison(p) {
					files[p] = true
				}
			}
		}
		for _, g := range gens {
			pairs++
			rec.Case(nonEmpty[g] >= 1, tag+dr.Task.Dir+"|"+g)
			rec.Label("generator:" + g)
			if nonEmpty[g] == 0 {
				rec.Label("produced-nothing")
			}
		}
	}
	return pairs, files
}

func sigTail(sig string) string {
	if i := strings.LastIndexByte(sig, '|'); i >= 0 {
		return sig[i+1:]
	}
	return sig
}

// sub runs one umbrella sub-check. It fails with the first finding; every
// further finding gets a sub-check of its own, "<name>/<signature tail>", so
// that each differing file is a finding of its own.
func sub(t *testing.T, name, rule string, compute func(t *testing.T, rec *kit.Rec) []finding) {
	var fs []finding
	computed := false
	get := func(t *testing.T, rec *kit.Rec) []finding {
		if !computed {
			fs = compute(t, rec)
			computed = true
		}
		return fs
	}
	kit.Plain(t, name, rule, func(t *testing.T, rec *kit.Rec) {
		fs := get(t, rec)
		if len(fs) == 0 {
			return
		}
		msg := fs[0].Msg
		if len(fs) > 1 {
			msg += fmt.Sprintf("\n\n%d findings in this sub-check (each further one is reported as its own sub-check):", len(fs))
			for i, f := range fs {
				if i >= 40 {
					msg += "\n  …"
					break
				}
				msg += "\n  " + f.Sig
			}
		}
		rec.PlainFail(t, fs[0].Sig, "%s", msg)
	})
	var extras []string
	if computed {
		seen := map[string]bool{}
		for i, f := range fs {
			if i == 0 || seen[sigTail(f.Sig)] {
				continue
			}
			seen[sigTail(f.Sig)] = true
			extras = append(extras, sigTail(f.Sig))
		}
	} else {
		// the umbrella was filtered out: replay of one of the extra sub-checks
		prefix := t.Name() + "/" + name + "/"
		for _, o := range strings.Split(os.Getenv("VERIF_ONLY"), ",") {
			if strings.HasPrefix(o, prefix) {
				extras = append(extras, strings.TrimPrefix(o, prefix))
			}
		}
	}
	for _, x := range extras {
		x := x
		kit.Plain(t, name+"/"+x, rule+" [one finding of "+name+"]", func(t *testing.T, rec *kit.Rec) {
			fs := get(t, rec)
			rec.Case(true, x)
			for _, f := range fs {
				if sigTail(f.Sig) == x {
					rec.PlainFail(t, f.Sig, "%s", f.Msg)
				}
			}
		})
	}
}

// ---- the sub-checks -----------------------------------------------------------------

func TestRepo(t *testing.T) {
	var ws *workspace
	workspaceOf := func(t0 *testing.T, rec *kit.Rec) *workspace {
		if ws == nil {
			ws = newWorkspace(t, rec) // cleanup is tied to TestRepo, not to the sub-check
		}
		return ws
	}
	first := func(rec *kit.Rec) *runResult {
		if ws.run1 == nil {
			ws.run1 = ws.runAll(rec, ws.src, "")
		}
		return ws.run1
	}
	repo := repoPath()

	sub(t, "repo/fixpoint",
		"every //go:generate directive of the tree (discovered by scanning all .go files), run with the generator binaries built from the tree in a scratch copy; one case per (directory, generator) pair; non-trivial iff the pair wrote >= 1 non-empty file; all pairs enumerated",
		func(t *testing.T, rec *kit.Rec) []finding {
			w := workspaceOf(t, rec)
			if w.setupErr != nil {
				return []finding{*w.setupErr}
			}
			r := first(rec)
			pairs, files := w.recordCases(rec, r, "")
			nonEmpty := 0
			for p := range files {
				if e, ok := r.Merged[p]; ok && len(e.Data) > 0 {
					nonEmpty++
				}
			}
			headers := 0
			for _, p := range w.src.paths() {
				if isGenerated(w.src[p].Data) {
					headers++
				}
			}
			rec.Extra("directives", len(w.dirs))
			rec.Extra("directories", len(w.tasks))
			rec.Extra("pairs", pairs)
			rec.Extra("generated_files", nonEmpty)
			rec.Extra("files_with_generated_header", headers)
			rec.Extra("files_in_tree", len(w.src))
			rec.Extra("exhaustive", true)
			rec.Extra("setup_s", float64(int(w.setupDur.Seconds()*10))/10)
			rec.Extra("run_s", float64(int(r.Wall.Seconds()*10))/10)
			if len(w.skipped) > 0 {
				rec.Extra("skipped_directives", strings.Join(w.skipped, "; "))
			}
			t.Logf("C13 repo/fixpoint: %d directives in %d directories, %d (directory, generator) pairs, %d generated files written, %d files with a generated header, setup %.1fs, run %.1fs",
				len(w.dirs), len(w.tasks), pairs, nonEmpty, headers, w.setupDur.Seconds(), r.Wall.Seconds())
			if len(w.dirs) == 0 {
				return []finding{{"C13|repo|no-directives", "no //go:generate directive found in " + repo}}
			}
			fs := generatorFailures(r)
			// (a) the regenerated tree is the working tree
			for _, c := range diffTrees(w.src, r.Merged) {
				fs = append(fs, finding{"C13|repo|changed:" + c.Path, "regenerating does not reproduce the working tree: " + describeChange(c, w.src, r.Merged, "committed", "regenerated")})
			}
			// (b) every generated file is produced by some directive
			touched := map[string]bool{}
			for _, dr := range r.Dirs {
				for p := range dr.Touched {
					touched[p] = true
				}
			}
			for _, p := range w.src.paths() {
				if isGenerated(w.src[p].Data) && !touched[p] {
					fs = append(fs, finding{"C13|repo|orphan:" + p, fmt.Sprintf("%s carries the header %q but none of the %d go:generate directives of the tree writes it (it still had its stamped mtime after all of them had run)", p, firstHeader(w.src[p].Data), len(w.dirs))})
				}
			}
			return fs
		})

	sub(t, "repo/second-run",
		"all directives run once more on top of the complete output of the first run; one case per (directory, generator) pair; non-trivial iff the pair wrote >= 1 non-empty file; the tree must not change (idempotence)",
		func(t *testing.T, rec *kit.Rec) []finding {
			w := workspaceOf(t, rec)
			if w.setupErr != nil {
				return []finding{*w.setupErr}
			}
			r1 := first(rec)
			r2 := w.runAll(rec, r1.Merged, "")
			w.recordCases(rec, r2, "")
			rec.Extra("directives", len(w.dirs))
			rec.Extra("exhaustive", true)
			rec.Extra("run_s", float64(int(r2.Wall.Seconds()*10))/10)
			fs := generatorFailures(r2)
			for _, c := range diffTrees(r1.Merged, r2.Merged) {
				fs = append(fs, finding{"C13|repo|not-idempotent:" + c.Path, "a second generator run on top of the first run's output changes it: " + describeChange(c, r1.Merged, r2.Merged, "run1", "run2")})
			}
			return fs
		})

	sub(t, "repo/determinism",
		"all directives run again from the unchanged input (runs 2..R, R = 3 quick / 6 thorough, alternating GOMAXPROCS=1 and 16; each process re-randomises map iteration); one case per (run, directory, generator); non-trivial iff the pair wrote >= 1 non-empty file; every run must equal run 1 byte for byte",
		func(t *testing.T, rec *kit.Rec) []finding {
			w := workspaceOf(t, rec)
			if w.setupErr != nil {
				return []finding{*w.setupErr}
			}
			r1 := first(rec)
			R := kit.Pick(3, 6)
			var fs []finding
			seen := map[string]bool{}
			total := 0.0
			for run := 2; run <= R; run++ {
				gmp := "1"
				if run%2 == 1 {
					gmp = "16"
				}
				r := w.runAll(rec, w.src, gmp)
				total += r.Wall.Seconds()
				w.recordCases(rec, r, fmt.Sprintf("run%d|GOMAXPROCS=%s|", run, gmp))
				for _, f := range generatorFailures(r) {
					if !seen[f.Sig] {
						seen[f.Sig] = true
						fs = append(fs, f)
					}
				}
				for _, c := range diffTrees(r1.Merged, r.Merged) {
					sig := "C13|repo|nondeterministic:" + c.Path
					if seen[sig] {
						continue
					}
					seen[sig] = true
					fs = append(fs, finding{sig, fmt.Sprintf("run %d (GOMAXPROCS=%s) of the same generators on the same input differs from run 1: %s", run, gmp, describeChange(c, r1.Merged, r.Merged, "run1", fmt.Sprintf("run%d", run)))})
				}
			}
			rec.Extra("runs", R)
			rec.Extra("directives", len(w.dirs))
			rec.Extra("run_s", float64(int(total*10))/10)
			return fs
		})
}

func firstHeader(data []byte) string {
	for _, l := range strings.Split(string(data), "\n") {
		if reGenerated.MatchString(strings.TrimRight(l, "\r")) {
			return l
		}
	}
	return ""
}
