package c13

import (
	"verifharness/gomspec"
	"verifharness/scratch"

	"fmt"
	"os"
	"path/filepath"
	"sort"
	"strings"
	"sync"
	"testing"
	"time"

	"pgregory.net/rapid"

	"verifharness/kit"
)

// ---- grammar of scratch packages ------------------------------------------------------

type fkind int

const (
	kInt fkind = iota
	kString
	kStrSlice
	kOptInt
	kSelfPtr
	kGoMap
	kSeqInt
	kTParam
)

var kindNames = map[fkind]string{kInt: "int", kString: "string", kStrSlice: "[]string", kOptInt: "fp.Option[int]", kSelfPtr: "*Self", kGoMap: "map[string]int", kSeqInt: "fp.Seq[int]", kTParam: "T"}

type fieldSpec struct {
	Name string
	Kind fkind
}

type structSpec struct {
	Name     string
	Generic  bool
	Fields   []fieldSpec
	Json     bool
	Labelled bool
	Eq       bool
	Hash     bool
	Monoid   bool
}

type pkgSpec struct{ Structs []structSpec }

var (
	freeKinds   = []fkind{kInt, kString, kStrSlice, kOptInt, kSelfPtr, kGoMap, kSeqInt}
	hashKinds   = []fkind{kInt, kString, kStrSlice, kOptInt}
	monoidKinds = []fkind{kString, kSeqInt, kGoMap}
)

func genPkg() *rapid.Generator[pkgSpec] {
	return rapid.Custom(func(t *rapid.T) pkgSpec {
		n := rapid.IntRange(1, 4).Draw(t, "structs")
		var p pkgSpec
		for i := 0; i < n; i++ {
			s := structSpec{Name: fmt.Sprintf("S%d", i+1)}
			profile := rapid.IntRange(0, 3).Draw(t, "profile") // 0,1 free; 2 hashable kinds; 3 monoid kinds
			kinds := freeKinds
			switch profile {
			case 2:
				kinds = hashKinds
			case 3:
				kinds = monoidKinds
			default:
				s.Generic = rapid.IntRange(0, 2).Draw(t, "generic") == 0
				if s.Generic {
					kinds = append(append([]fkind{}, freeKinds...), kTParam, kTParam)
				}
			}
			nf := rapid.IntRange(1, 5).Draw(t, "fields")
			for j := 0; j < nf; j++ {
				k := rapid.SampledFrom(kinds).Draw(t, "kind")
				name := fmt.Sprintf("f%d", j+1)
				switch rapid.IntRange(0, 5).Draw(t, "public") {
				case 0:
					name = fmt.Sprintf("F%d", j+1)
				case 1, 2:
					// names that differ only in how (or whether) a trailing number is written; the same
					// name may appear in several structs (per-name declarations are emitted once per package)
					pool := []string{"a", "a0", "a1", "a01", "a2", "a10", "a02", "n", "n0", "n00", "q9", "q09", "q10"}
					for try := 0; try < 20; try++ {
						c := rapid.SampledFrom(pool).Draw(t, "numericName")
						dup := false
						for _, f := range s.Fields {
							dup = dup || f.Name == c
						}
						if !dup {
							name = c
							break
						}
					}
				}
				s.Fields = append(s.Fields, fieldSpec{Name: name, Kind: k})
			}
			s.Json = rapid.IntRange(0, 2).Draw(t, "json") == 0
			s.Labelled = rapid.IntRange(0, 2).Draw(t, "labelled") == 0
			s.Eq = rapid.IntRange(0, 1).Draw(t, "eq") == 0
			if profile == 2 {
				s.Hash = rapid.IntRange(0, 2).Draw(t, "hash") != 0
			}
			if profile == 3 {
				s.Monoid = rapid.IntRange(0, 2).Draw(t, "monoid") != 0
			}
			p.Structs = append(p.Structs, s)
		}
		// half of the packages carry, somewhere, two field names that tie when a trailing number is read
		// by value (a/a0, a1/a01, ...), usually in structs that get per-name declarations (@fp.GenLabelled)
		if rapid.Bool().Draw(t, "tiePair") {
			pair := rapid.SampledFrom([][2]string{{"a", "a0"}, {"a1", "a01"}, {"n0", "n00"}, {"q9", "q09"}, {"n", "n00"}, {"a2", "a02"}}).Draw(t, "pair")
			si := rapid.IntRange(0, n-1).Draw(t, "tieStructA")
			sj := rapid.IntRange(0, n-1).Draw(t, "tieStructB")
			if si == sj && len(p.Structs[si].Fields) < 2 {
				p.Structs[si].Fields = append(p.Structs[si].Fields, fieldSpec{Name: "f9", Kind: kInt})
			}
			place := func(st *structSpec, at int, name string) {
				for k := range st.Fields {
					if st.Fields[k].Name == name {
						st.Fields[k].Name = fmt.Sprintf("g%d", k+1)
					}
				}
				st.Fields[at].Name = name
			}
			place(&p.Structs[si], 0, pair[0])
			place(&p.Structs[sj], len(p.Structs[sj].Fields)-1, pair[1])
			if si == sj { // placing the second may have renamed the first when the struct has one slot for both
				p.Structs[si].Fields[0].Name = pair[0]
			}
			if rapid.IntRange(0, 3).Draw(t, "tieLabelled") != 0 {
				p.Structs[si].Labelled, p.Structs[sj].Labelled = true, true
			}
		}
		return p
	})
}

func (s structSpec) selfType() string {
	if s.Generic {
		return s.Name + "[T]"
	}
	return s.Name
}

func (s structSpec) deriveType() string {
	if s.Generic {
		return s.Name + "[any]"
	}
	return s.Name
}

func (p pkgSpec) render() string {
	var body strings.Builder
	useFp, useEq, useHash, useMonoid := false, false, false, false
	for _, s := range p.Structs {
		body.WriteString("// @fp.Value\n")
		if s.Json {
			body.WriteString("// @fp.Json\n")
		}
		if s.Labelled {
			body.WriteString("// @fp.GenLabelled\n")
		}
		if s.Generic {
			fmt.Fprintf(&body, "type %s[T any] struct {\n", s.Name)
		} else {
			fmt.Fprintf(&body, "type %s struct {\n", s.Name)
		}
		for _, f := range s.Fields {
			ty := kindNames[f.Kind]
			switch f.Kind {
			case kSelfPtr:
				ty = "*" + s.selfType()
			case kOptInt, kSeqInt:
				useFp = true
			}
			fmt.Fprintf(&body, "\t%s %s\n", f.Name, ty)
		}
		body.WriteString("}\n\n")
		if s.Eq {
			useFp, useEq = true, true
			fmt.Fprintf(&body, "// @fp.Derive\nvar _ eq.Derives[fp.Eq[%s]]\n\n", s.deriveType())
		}
		if s.Hash {
			useFp, useHash = true, true
			fmt.Fprintf(&body, "// @fp.Derive\nvar _ hash.Derives[fp.Hashable[%s]]\n\n", s.deriveType())
		}
		if s.Monoid {
			useFp, useMonoid = true, true
			fmt.Fprintf(&body, "// @fp.Derive\nvar _ monoid.Derives[fp.Monoid[%s]]\n\n", s.deriveType())
		}
	}
	var w strings.Builder
	w.WriteString("package pa\n\n")
	var imports []string
	if useFp {
		imports = append(imports, "github.com/csgura/fp")
	}
	if useEq {
		imports = append(imports, "github.com/csgura/fp/eq")
	}
	if useHash {
		imports = append(imports, "github.com/csgura/fp/hash")
	}
	if useMonoid {
		imports = append(imports, "github.com/csgura/fp/monoid")
	}
	if len(imports) > 0 {
		w.WriteString("import (\n")
		for _, i := range imports {
			fmt.Fprintf(&w, "\t%q\n", i)
		}
		w.WriteString(")\n\n")
	}
	w.WriteString("//go:generate go run github.com/csgura/fp/cmd/gombok\n\n")
	w.WriteString(body.String())
	return w.String()
}

// ---- per-process tooling -----------------------------------------------------------------

type scratchEnv struct {
	once sync.Once
	base string
	bin  string
	sum  []byte
	err  error
	sig  string // signature of err
	seq  int
	// extra files (relative path -> text) written next to pa/types.go by the next decide call only
	extra map[string]string
}

func (e *scratchEnv) gomod() string {
	return fmt.Sprintf("module scratch\n\ngo 1.23\n\nrequire github.com/csgura/fp v0.0.0\n\nreplace github.com/csgura/fp => %s\n", repoPath())
}

func (e *scratchEnv) writeModule(dir string, files map[string]string) error {
	if err := os.MkdirAll(dir, 0o755); err != nil {
		return err
	}
	if err := os.WriteFile(filepath.Join(dir, "go.mod"), []byte(e.gomod()), 0o644); err != nil {
		return err
	}
	if err := os.WriteFile(filepath.Join(dir, "go.sum"), e.sum, 0o644); err != nil {
		return err
	}
	for rel, content := range files {
		p := filepath.Join(dir, filepath.FromSlash(rel))
		if err := os.MkdirAll(filepath.Dir(p), 0o755); err != nil {
			return err
		}
		if err := os.WriteFile(p, []byte(content), 0o644); err != nil {
			return err
		}
	}
	return nil
}

// init builds gombok once per test process from the tree under test, through a
// temp module that replaces github.com/csgura/fp with that tree (so that the go
// command never writes go.sum inside the tree).
func (e *scratchEnv) init(rec *kit.Rec) {
	e.once.Do(func() {
		sweepStale()
		base, err := os.MkdirTemp("", "verif-c13-*")
		if err != nil {
			e.err = err
			return
		}
		e.base = base
		if e.sum, err = os.ReadFile(filepath.Join(repoPath(), "go.sum")); err != nil {
			e.err = err
			return
		}
		tool := filepath.Join(base, "toolmod")
		if err := e.writeModule(tool, map[string]string{"tools.go": "//go:build tools\n\npackage toolmod\n\nimport _ \"github.com/csgura/fp/cmd/gombok\"\n"}); err != nil {
			e.err = err
			return
		}
		bin := filepath.Join(base, "bin", "gombok")
		var r cmdResult
		withBeat(rec, func() {
			r = runCmd(tool, childEnv(), genTimeout, "go", "build", "-o", bin, "github.com/csgura/fp/cmd/gombok")
		})
		if r.Exit != 0 {
			e.err = fmt.Errorf("building gombok from %s failed (exit %d):\n%s", repoPath(), r.Exit, tail(r.Out, 30))
			e.sig = "C13|scratch|gombok-build-failed"
			return
		}
		e.bin = bin
	})
}

func (e *scratchEnv) cleanup() {
	if e.base != "" {
		_ = os.RemoveAll(e.base)
	}
}

// readGenerated returns the files of the package directory other than the input.
func readGenerated(dir string) map[string]string {
	out := map[string]string{}
	ents, _ := os.ReadDir(dir)
	for _, en := range ents {
		if en.IsDir() || en.Name() == "types.go" {
			continue
		}
		b, err := os.ReadFile(filepath.Join(dir, en.Name()))
		if err == nil {
			out[en.Name()] = string(b)
		}
	}
	return out
}

func sortedKeys(m map[string]string) []string {
	ks := make([]string, 0, len(m))
	for k := range m {
		ks = append(ks, k)
	}
	sort.Strings(ks)
	return ks
}

// compareOutputs returns "" if a and b hold the same files with the same bytes.
func compareOutputs(nameA, nameB string, a, b map[string]string) string {
	names := map[string]string{}
	for k := range a {
		names[k] = ""
	}
	for k := range b {
		names[k] = ""
	}
	for _, k := range sortedKeys(names) {
		va, oka := a[k]
		vb, okb := b[k]
		switch {
		case !oka:
			return fmt.Sprintf("%s exists after %s but not after %s", k, nameB, nameA)
		case !okb:
			return fmt.Sprintf("%s exists after %s but not after %s", k, nameA, nameB)
		case va != vb:
			return fmt.Sprintf("%s differs:\n%s", k, diffExcerpt(nameA+"/"+k, nameB+"/"+k, []byte(va), []byte(vb), 12))
		}
	}
	return ""
}

// decide runs gombok on three identical copies of the scratch package src
// (GOMAXPROCS 1 / 16 / default, concurrently, each in its own module directory
// with the same relative layout) and once more on top of the third copy's output.
func (env *scratchEnv) decide(rt *rapid.T, rec *kit.Rec, sigPrefix string, src string, label func()) {
	env.init(rec)
	if env.err != nil {
		rec.Case(false, src)
		sig := env.sig
		if sig == "" {
			sig = "HARNESS|infra|scratch-setup"
		}
		rec.Failf(rt, sig, "%v", env.err)
	}
	extra := env.extra
	env.extra = nil
	env.seq++
	caseDir := filepath.Join(env.base, fmt.Sprintf("c%d", env.seq))
	defer os.RemoveAll(caseDir)

	type runT struct {
		name, gmp, dir string
		res            cmdResult
		out            map[string]string
		err            error
	}
	runs := []*runT{{name: "run1(GOMAXPROCS=1)", gmp: "1"}, {name: "run2(GOMAXPROCS=16)", gmp: "16"}, {name: "run3(GOMAXPROCS default)", gmp: ""}}
	gombok := func(dir, gmp string) cmdResult {
		extra := []string{"GOPACKAGE=pa", "GOFILE=types.go", "GOLINE=" + fmt.Sprint(lineOf(src, "//go:generate")), "GOARCH=" + goarch, "GOOS=" + goos, "DOLLAR=$"}
		if gmp != "" {
			extra = append(extra, "GOMAXPROCS="+gmp)
		}
		var r cmdResult
		for attempt := 0; attempt < 3; attempt++ {
			r = runCmd(filepath.Join(dir, "pa"), childEnv(extra...), genTimeout, env.bin)
			if !scratch.ToolchainTrouble(r.Out) {
				break
			}
			time.Sleep(time.Duration(attempt+1) * 2 * time.Second)
		}
		return r
	}
	var wg sync.WaitGroup
	withBeat(rec, func() {
		for i, r := range runs {
			r.dir = filepath.Join(caseDir, fmt.Sprintf("m%d", i+1), "scratch")
			wg.Add(1)
			go func(r *runT) {
				defer wg.Done()
				if r.err = env.writeModule(r.dir, filesOf(src, extra)); r.err != nil {
					return
				}
				r.res = gombok(r.dir, r.gmp)
				r.out = readGenerated(filepath.Join(r.dir, "pa"))
			}(r)
		}
		wg.Wait()
	})
	for _, r := range runs {
		if r.err != nil {
			rec.Case(false, src)
			rec.Failf(rt, "HARNESS|infra|scratch-write", "%v", r.err)
		}
	}
	for _, r := range runs {
		if scratch.ToolchainTrouble(r.res.Out) {
			// the environment failed three times in a row (build cache trimmed under go/packages, disk,
			// memory): not the generator's answer, nothing is decided
			rec.Case(false, src)
			rec.Failf(rt, "HARNESS|infra|toolchain-trouble", "%s: %s", r.name, tail(r.res.Out, 10))
		}
	}
	accepted := true
	for _, r := range runs {
		if r.res.Exit != 0 || hasPanic(r.res.Out) {
			accepted = false
		}
	}
	nonEmpty := 0
	for _, v := range runs[0].out {
		if len(v) > 0 {
			nonEmpty++
		}
	}
	rec.Case(accepted && nonEmpty >= 1, src)
	label()

	// The exit status is part of the observable behaviour.
	for _, r := range runs[1:] {
		if (r.res.Exit != 0 || hasPanic(r.res.Out)) != (runs[0].res.Exit != 0 || hasPanic(runs[0].res.Out)) {
			rec.Failf(rt, sigPrefix+"|nondeterministic-status", "gombok on identical input: %s ended with exit status %d, %s with exit status %d\n--- %s\n%s\n--- %s\n%s\ninput:\n%s",
				runs[0].name, runs[0].res.Exit, r.name, r.res.Exit, runs[0].name, tail(runs[0].res.Out, 15), r.name, tail(r.res.Out, 15), src)
		}
	}
	if !accepted {
		// gombok rejects this package (every time): C07/C08 decide whether it should.
		rec.Label("rejected")
		rec.Label("rejected:gombok")
		return
	}
	for _, r := range runs[1:] {
		if d := compareOutputs(runs[0].name, r.name, runs[0].out, r.out); d != "" {
			rec.Failf(rt, sigPrefix+"|nondeterministic", "gombok run twice on identical input wrote different files: %s\ninput:\n%s", d, src)
		}
	}
	// once more on top of its own output
	last := runs[2]
	var again cmdResult
	withBeat(rec, func() { again = gombok(last.dir, "") })
	if scratch.ToolchainTrouble(again.Out) {
		rec.Failf(rt, "HARNESS|infra|toolchain-trouble", "run4: %s", tail(again.Out, 10))
	}
	if again.Exit != 0 || hasPanic(again.Out) {
		rec.Failf(rt, sigPrefix+"|not-idempotent", "gombok accepted the package but fails when run again on top of its own output (exit status %d):\n%s\ninput:\n%s", again.Exit, tail(again.Out, 25), src)
	}
	if d := compareOutputs("run3", "run4(on top of run3)", last.out, readGenerated(filepath.Join(last.dir, "pa"))); d != "" {
		// Is it the presence of the generated files, or does the output simply vary from
		// run to run (and runs 1-3 agreed by chance)? Four more runs on pristine copies.
		for i := 0; i < 4; i++ {
			dir := filepath.Join(caseDir, fmt.Sprintf("m%d", 5+i), "scratch")
			if err := env.writeModule(dir, filesOf(src, extra)); err != nil {
				break
			}
			var r cmdResult
			withBeat(rec, func() { r = gombok(dir, "") })
			name := fmt.Sprintf("run%d(pristine copy)", 5+i)
			if r.Exit != 0 || hasPanic(r.Out) {
				break
			}
			if d2 := compareOutputs(runs[0].name, name, runs[0].out, readGenerated(filepath.Join(dir, "pa"))); d2 != "" {
				rec.Failf(rt, sigPrefix+"|nondeterministic", "gombok run repeatedly on identical input wrote different files (runs 1-3 agreed, %s does not): %s\ninput:\n%s", name, d2, src)
			}
		}
		rec.Failf(rt, sigPrefix+"|not-idempotent", "running gombok on top of its own output changes it (runs 1-3 and four further runs on the pristine input agreed with one another): %s\ninput:\n%s", d, src)
	}
	// Whether the output compiles is C07/C08's business; here it is only counted.
	var b cmdResult
	withBeat(rec, func() { b = runCmd(last.dir, childEnv(), genTimeout, "go", "build", "./...") })
	if b.Exit != 0 {
		rec.Label("rejected")
		rec.Label("rejected:build")
		if dir := os.Getenv("C13_DUMP_REJECTED"); dir != "" { // development aid: look at what does not compile
			_ = os.MkdirAll(dir, 0o755)
			_ = os.WriteFile(filepath.Join(dir, fmt.Sprintf("%s-%d-%d.txt", strings.ReplaceAll(sigPrefix, "|", "_"), os.Getpid(), env.seq)), []byte(src+"\n---- go build ----\n"+tail(b.Out, 40)+"\n"), 0o644)
		}
	} else {
		rec.Label("accepted")
	}
}

func labelSpec(rec *kit.Rec, p pkgSpec) {
	seen := map[string]bool{}
	add := func(l string) {
		if !seen[l] {
			seen[l] = true
			rec.Label(l)
		}
	}
	add(fmt.Sprintf("structs:%d", len(p.Structs)))
	for _, s := range p.Structs {
		if s.Generic {
			add("generic")
		}
		if s.Json {
			add("@fp.Json")
		}
		if s.Labelled {
			add("@fp.GenLabelled")
		}
		if s.Eq {
			add("derive:Eq")
		}
		if s.Hash {
			add("derive:Hashable")
		}
		if s.Monoid {
			add("derive:Monoid")
		}
		for _, f := range s.Fields {
			add("kind:" + kindNames[f.Kind])
		}
	}
}

func filesOf(src string, extra map[string]string) map[string]string {
	m := map[string]string{"pa/types.go": src}
	for k, v := range extra {
		m[k] = v
	}
	return m
}

func lineOf(src, needle string) int {
	for i, l := range strings.Split(src, "\n") {
		if strings.HasPrefix(l, needle) {
			return i + 1
		}
	}
	return 1
}

func TestScratch(t *testing.T) {
	env := &scratchEnv{}
	t.Cleanup(env.cleanup)

	kit.Check(t, "scratch/determinism",
		"scratch package `pa` from a grammar (1-4 @fp.Value structs, optionally generic, 1-5 fields (named fN/FN or from a pool of names that tie when a trailing number is read by value; half of the packages carry such a tie pair) of int/string/[]string/fp.Option[int]/*Self/map[string]int/fp.Seq[int]/T, optional @fp.Json/@fp.GenLabelled, optional Eq/Hashable/Monoid derives where the field kinds allow them); gombok (built from the tree) run on three identical copies with GOMAXPROCS=1/16/default and once more on top of its own output; non-trivial iff gombok accepted the package and wrote >= 1 non-empty file; distinct by source text",
		kit.Opt{MinChecks: 2, HangAfter: 20 * time.Minute},
		func(rt *rapid.T, rec *kit.Rec) {
			spec := genPkg().Draw(rt, "pkg")
			env.decide(rt, rec, "C13|scratch", spec.render(), func() { labelSpec(rec, spec) })
		})
	kit.Check(t, "scratch/determinism-value-grammar",
		"scratch package `pa` drawn from the C07 grammar (gomspec: 1-4 structs under @fp.Value or the explicit annotation family, 1-25 fields, private/public/underscore/embedded/short/numeric-suffix names, composite field types, tags, type parameters, hand-written members); gombok (built from the tree) run on three identical copies with GOMAXPROCS=1/16/default and once more on top of its own output; non-trivial iff gombok accepted the package and wrote >= 1 non-empty file; distinct by source text",
		kit.Opt{MinChecks: 2, HangAfter: 20 * time.Minute},
		func(rt *rapid.T, rec *kit.Rec) {
			src, labels := gomspec.DrawValueSource(rt)
			if strings.Contains(src, "\"scratch/as\"") {
				// the package uses a type of the user package that is itself called `as`
				env.extra = map[string]string{"as/as.go": gomspec.UserAsSource}
			}
			env.decide(rt, rec, "C13|scratch-value-grammar", src, func() {
				for _, l := range labels {
					rec.Label(l)
				}
			})
		})
	kit.Check(t, "scratch/determinism-derive-grammar",
		"scratch package `pa` drawn from the C08 grammar (gomspec: 1-3 structs, @fp.Derive directives for Eq/Ord/Hashable/Monoid/Clone/Show, nested and generic structs, recursive=true, local instance overrides); gombok run as above; non-trivial iff gombok accepted the package and wrote >= 1 non-empty file; distinct by source text",
		kit.Opt{MinChecks: 2, HangAfter: 20 * time.Minute},
		func(rt *rapid.T, rec *kit.Rec) {
			src, labels := gomspec.DrawDeriveSource(rt)
			env.decide(rt, rec, "C13|scratch-derive-grammar", src, func() {
				for _, l := range labels {
					rec.Label(l)
				}
			})
		})
	importGivenCheck(t, env)
	userTypeclassCheck(t, env)
	tiedInstancesCheck(t, env)
	adaptorCheck(t, env)
	generateCheck(t, env)
}
