package c13

import (
	"fmt"
	"strings"
)

type edit struct {
	kind   byte // ' ', '-', '+'
	line   string
	ia, ib int // 0-based line index in a / b of this line (or of the position it is inserted at)
}

// myers is the O(ND) line diff; it gives up (false) beyond maxD edits.
func myers(a, b []string, maxD int) ([]edit, bool) {
	n, m := len(a), len(b)
	max := n + m
	if maxD < max {
		max = maxD
	}
	off := max
	v := make([]int, 2*max+2)
	var trace [][]int
	for d := 0; d <= max; d++ {
		vc := make([]int, len(v))
		copy(vc, v)
		trace = append(trace, vc)
		for k := -d; k <= d; k += 2 {
			var x int
			if k == -d || (k != d && v[off+k-1] < v[off+k+1]) {
				x = v[off+k+1]
			} else {
				x = v[off+k-1] + 1
			}
			y := x - k
			for x < n && y < m && a[x] == b[y] {
				x++
				y++
			}
			v[off+k] = x
			if x >= n && y >= m {
				var es []edit
				x, y := n, m
				for dd := d; dd >= 0; dd-- {
					pv := trace[dd]
					kk := x - y
					var pk int
					if kk == -dd || (kk != dd && pv[off+kk-1] < pv[off+kk+1]) {
						pk = kk + 1
					} else {
						pk = kk - 1
					}
					px := pv[off+pk]
					py := px - pk
					for x > px && y > py && x > 0 && y > 0 {
						es = append(es, edit{' ', a[x-1], x - 1, y - 1})
						x--
						y--
					}
					if dd > 0 {
						if x == px {
							es = append(es, edit{'+', b[y-1], x, y - 1})
						} else {
							es = append(es, edit{'-', a[x-1], x - 1, y})
						}
					}
					x, y = px, py
				}
				for i, j := 0, len(es)-1; i < j; i, j = i+1, j-1 {
					es[i], es[j] = es[j], es[i]
				}
				return es, true
			}
		}
	}
	return nil, false
}

// unifiedExcerpt renders the first hunks of a unified diff (2 lines of context),
// at most maxLines lines of hunk body.
func unifiedExcerpt(nameA, nameB string, a, b []byte, maxLines int) string {
	la := strings.Split(string(a), "\n")
	lb := strings.Split(string(b), "\n")
	p := 0
	for p < len(la) && p < len(lb) && la[p] == lb[p] {
		p++
	}
	s := 0
	for s < len(la)-p && s < len(lb)-p && la[len(la)-1-s] == lb[len(lb)-1-s] {
		s++
	}
	mid, ok := myers(la[p:len(la)-s], lb[p:len(lb)-s], 1500)
	if !ok {
		return prefixSuffixExcerpt(nameA, nameB, la, lb, p, s, maxLines/2)
	}
	var es []edit
	for i := 0; i < p; i++ {
		es = append(es, edit{' ', la[i], i, i})
	}
	for _, e := range mid {
		e.ia += p
		e.ib += p
		es = append(es, e)
	}
	for i := 0; i < s; i++ {
		es = append(es, edit{' ', la[len(la)-s+i], len(la) - s + i, len(lb) - s + i})
	}
	const ctx = 2
	keep := make([]bool, len(es))
	changed := 0
	for i, e := range es {
		if e.kind != ' ' {
			changed++
			for j := i - ctx; j <= i+ctx; j++ {
				if j >= 0 && j < len(es) {
					keep[j] = true
				}
			}
		}
	}
	var w strings.Builder
	fmt.Fprintf(&w, "--- %s\n+++ %s\n", nameA, nameB)
	printed, shownChanged, hunks, shownHunks := 0, 0, 0, 0
	for i := 0; i < len(es); {
		if !keep[i] {
			i++
			continue
		}
		j := i
		na, nb := 0, 0
		for j < len(es) && keep[j] {
			if es[j].kind != '+' {
				na++
			}
			if es[j].kind != '-' {
				nb++
			}
			j++
		}
		hunks++
		if printed < maxLines {
			shownHunks++
			fmt.Fprintf(&w, "@@ -%d,%d +%d,%d @@\n", es[i].ia+1, na, es[i].ib+1, nb)
			for k := i; k < j; k++ {
				if printed >= maxLines {
					w.WriteString(" …\n")
					break
				}
				w.WriteString(string(es[k].kind) + clipLine(es[k].line) + "\n")
				printed++
				if es[k].kind != ' ' {
					shownChanged++
				}
			}
		}
		i = j
	}
	if shownChanged < changed {
		fmt.Fprintf(&w, "… %d more changed lines; %d hunks in total, %d shown\n", changed-shownChanged, hunks, shownHunks)
	}
	return w.String()
}

// prefixSuffixExcerpt is the fallback for files that differ too much: the lines
// between the common prefix and the common suffix.
func prefixSuffixExcerpt(nameA, nameB string, la, lb []string, p, s, max int) string {
	ma, mb := la[p:len(la)-s], lb[p:len(lb)-s]
	var w strings.Builder
	fmt.Fprintf(&w, "--- %s\n+++ %s\n", nameA, nameB)
	ctx := 2
	if p < ctx {
		ctx = p
	}
	fmt.Fprintf(&w, "@@ -%d,%d +%d,%d @@\n", p-ctx+1, len(ma)+ctx, p-ctx+1, len(mb)+ctx)
	for _, l := range la[p-ctx : p] {
		w.WriteString(" " + clipLine(l) + "\n")
	}
	emit := func(prefix string, ls []string) {
		for i, l := range ls {
			if i >= max {
				fmt.Fprintf(&w, "%s… (%d more lines)\n", prefix, len(ls)-max)
				break
			}
			w.WriteString(prefix + clipLine(l) + "\n")
		}
	}
	emit("-", ma)
	emit("+", mb)
	return w.String()
}

func clipLine(l string) string {
	if len(l) > 200 {
		return l[:200] + "…"
	}
	return l
}
