package c13

import (
	"fmt"
	"strings"
	"testing"
	"time"

	"pgregory.net/rapid"

	"verifharness/kit"
)

// A typeclass instance package written by the user (not one of the library's six), modelled on the fixture
// the repository itself keeps under test/internal/show: fp.Show instances with an UNCONSTRAINED catch-all
// `Given[T any]`, so that every type has an instance and a recursive derive never has to stop. Whether Given
// is there is drawn.
const userShowPkg = `package show

import (
	"fmt"
	"time"

	"github.com/csgura/fp"
	"github.com/csgura/fp/hlist"
	"github.com/csgura/fp/seq"
)

type Derives[T any] interface {
}

func New[T any](f func(T) string) fp.Show[T] {
	return fp.ShowFunc[T](f)
}

var Time = New(func(t time.Time) string {
	return t.Format(time.RFC3339)
})

var String = New(func(t string) string {
	return fmt.Sprintf("%q", t)
})

func Int[T fp.ImplicitInt]() fp.Show[T] {
	return fp.Sprint[T]()
}

func Number[T fp.ImplicitNum]() fp.Show[T] {
	return fp.Sprint[T]()
}

//GIVEN

var HNil = New(func(hlist.Nil) string {
	return "Nil"
})

func Seq[T any](tshow fp.Show[T]) fp.Show[fp.Seq[T]] {
	return New(func(s fp.Seq[T]) string {
		return "[" + seq.Map(s, tshow.Show).MakeString(",") + "]"
	})
}

func StructHCons[H any, T hlist.HList](hshow fp.Show[H], tshow fp.Show[T]) fp.Show[hlist.Cons[H, T]] {
	return New(func(list hlist.Cons[H, T]) string {
		hstr := hshow.Show(list.Head())
		tstr := tshow.Show(hlist.Tail(list))
		if hlist.IsNil(hlist.Tail(list)) {
			return hstr
		}
		return fmt.Sprintf("%s , %s", hstr, tstr)
	})
}

func TupleHCons[H any, T hlist.HList](hshow fp.Show[H], tshow fp.Show[T]) fp.Show[hlist.Cons[H, T]] {
	return New(func(list hlist.Cons[H, T]) string {
		hstr := hshow.Show(list.Head())
		tstr := tshow.Show(hlist.Tail(list))
		if hlist.IsNil(hlist.Tail(list)) {
			return hstr
		}
		return fmt.Sprintf("%s,%s", hstr, tstr)
	})
}

func HCons[H any, T hlist.HList](hshow fp.Show[H], tshow fp.Show[T]) fp.Show[hlist.Cons[H, T]] {
	return New(func(list hlist.Cons[H, T]) string {
		return fmt.Sprintf("%s :: %s", hshow.Show(list.Head()), tshow.Show(hlist.Tail(list)))
	})
}

func ContraMap[A, B any](ashow fp.Show[A], fba func(B) A) fp.Show[B] {
	return New(func(b B) string {
		return ashow.Show(fba(b))
	})
}

func Generic[A, Repr any](gen fp.Generic[A, Repr], reprShow fp.Show[Repr]) fp.Show[A] {
	return New(func(a A) string {
		return fmt.Sprintf("%s(%s)", gen.Type, reprShow.Show(gen.To(a)))
	})
}
`

const userShowGiven = `func Given[T any]() fp.Show[T] {
	return fp.Sprint[T]()
}
`

// (Added after an independently seeded change that stopped deleting the previous derive file before the value
// pass: a struct with @fp.String(useShow=true) whose Show instance only exists because ANOTHER struct is derived
// recursively against a package with a catch-all Given got a different String method on the second run.)
func userTypeclassCheck(t *testing.T, env *scratchEnv) {
	kit.Check(t, "scratch/determinism-user-typeclass",
		"scratch module: a user-written instance package `myshow` (fp.Show instances, HCons/Generic plumbing, with or without an unconstrained catch-all Given[T any]) and a working package `pa` of 2-4 @fp.Value structs (fields int, string, time.Time, fp.Seq[string], earlier structs, fp.Seq of earlier structs; optionally @fp.String(useShow=true) or @fp.String; optionally a hand-written Show instance) with `// @fp.Derive` or `// @fp.Derive(recursive=true)` directives against myshow for a drawn subset of the structs; gombok (built from the tree) run on three identical copies with GOMAXPROCS=1/16/default and once more on top of its own output; non-trivial iff gombok accepted the package and wrote >= 1 non-empty file; distinct by source text",
		kit.Opt{MinChecks: 2, HangAfter: 20 * time.Minute},
		func(rt *rapid.T, rec *kit.Rec) {
			given := rapid.IntRange(0, 3).Draw(rt, "catchAllGiven") != 0
			alias := rapid.SampledFrom([]string{"", "show ", "myshow "}).Draw(rt, "importAlias")
			pk := "show"
			if alias == "myshow " {
				pk = "myshow"
			}
			n := rapid.IntRange(2, 4).Draw(rt, "structs")
			var sb strings.Builder
			fmt.Fprintf(&sb, "package pa\n\nimport (\n\t\"time\"\n\n\t\"github.com/csgura/fp\"\n\t%s\"scratch/myshow\"\n)\n\nvar _ time.Time\nvar _ fp.Unit\nvar _ %s.Derives[int]\n\n", alias, pk)
			derived := 0
			for i := 1; i <= n; i++ {
				useShow := rapid.IntRange(0, 2).Draw(rt, "useShow")
				sb.WriteString("// @fp.Value\n")
				switch useShow {
				case 1:
					sb.WriteString("// @fp.String(useShow=true)\n")
					rec.Label("ann:String(useShow)")
				case 2:
					if rapid.Bool().Draw(rt, "plainString") {
						sb.WriteString("// @fp.String\n")
					}
				}
				fmt.Fprintf(&sb, "type S%d struct {\n", i)
				nf := rapid.IntRange(1, 4).Draw(rt, "fields")
				for j := 0; j < nf; j++ {
					kinds := []string{"int", "string", "time.Time", "fp.Seq[string]", "float64"}
					for e := 1; e < i; e++ {
						kinds = append(kinds, fmt.Sprintf("S%d", e), fmt.Sprintf("S%d", e), fmt.Sprintf("fp.Seq[S%d]", e))
					}
					fmt.Fprintf(&sb, "\tf%d %s\n", j, rapid.SampledFrom(kinds).Draw(rt, "fieldType"))
				}
				sb.WriteString("}\n\n")
				inst := rapid.IntRange(0, 5).Draw(rt, "instance")
				if i == n && derived == 0 && inst < 3 {
					inst = 5 // at least one directive
				}
				switch inst {
				case 0, 1:
					// no instance of its own: one may come into existence through a recursive derive elsewhere
				case 2:
					fmt.Fprintf(&sb, "// hand-written instance\nvar ShowS%d = %s.New(func(v S%d) string { return \"S%d\" })\n\n", i, pk, i, i)
					rec.Label("instance:hand-written")
				case 3, 4:
					fmt.Fprintf(&sb, "// @fp.Derive\nvar _ %s.Derives[fp.Show[S%d]]\n\n", pk, i)
					derived++
				default:
					fmt.Fprintf(&sb, "// @fp.Derive(recursive=true)\nvar _ %s.Derives[fp.Show[S%d]]\n\n", pk, i)
					rec.Label("derive:recursive")
					derived++
				}
			}
			g := ""
			if given {
				g = userShowGiven
				rec.Label("catch-all-given")
			}
			env.extra = map[string]string{"myshow/show.go": strings.Replace(userShowPkg, "//GIVEN\n", g, 1)}
			env.decide(rt, rec, "C13|scratch-user-typeclass", sb.String(), func() {})
		})
}
