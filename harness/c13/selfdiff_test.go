package c13

import (
	"math/rand"
	"strings"
	"testing"
)

// TestSelfDiff checks the harness' own line differ: replaying the edit script
// on a must give b (and the '-'/' ' lines must be exactly a).
func TestSelfDiff(t *testing.T) {
	r := rand.New(rand.NewSource(13))
	words := []string{"a", "b", "c", "d", "e"}
	for n := 0; n < 2000; n++ {
		mk := func() []string {
			k := r.Intn(12)
			s := make([]string, k)
			for i := range s {
				s[i] = words[r.Intn(len(words))]
			}
			return s
		}
		a, b := mk(), mk()
		es, ok := myers(a, b, 100)
		if !ok {
			t.Fatalf("myers gave up on %v %v", a, b)
		}
		var ra, rb []string
		for _, e := range es {
			if e.kind != '+' {
				ra = append(ra, e.line)
			}
			if e.kind != '-' {
				rb = append(rb, e.line)
			}
		}
		if strings.Join(ra, ",") != strings.Join(a, ",") || strings.Join(rb, ",") != strings.Join(b, ",") {
			t.Fatalf("edit script of %v -> %v replays to %v -> %v", a, b, ra, rb)
		}
	}
	out := unifiedExcerpt("x", "y", []byte("1\n2\n3\n4\n5\n6\n7\n8\n9\n"), []byte("1\n2\n3\nfour\n5\n6\n7\n8\nnine\n9\n"), 20)
	want := "--- x\n+++ y\n@@ -2,9 +2,10 @@\n 2\n 3\n-4\n+four\n 5\n 6\n 7\n 8\n+nine\n 9\n \n"
	if out != want {
		t.Fatalf("unifiedExcerpt:\n%s\nwant:\n%s", out, want)
	}
}
