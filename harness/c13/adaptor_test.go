package c13

import (
	"fmt"
	"strings"
	"testing"
	"time"

	"pgregory.net/rapid"

	"verifharness/kit"
)

// Scratch packages with a genfp.GenerateAdaptor directive (gombok's
// `// @fp.Generate`), the generator feature used by test/internal/adaptortest,
// testpk2 and gendebug. The directive carries Go map literals (ExtendsWith), so
// it is the obvious place for map-order dependent output.

type adaptorSpec struct {
	Methods []int    // indices into adaptorMethods: the methods of the adapted interface Svc
	Fields  []string // keys of ExtendsWith, in source order (variant ExtendsWith)
	Options int      // variant Options: number of methods of interface Extra, each with an ImplOption delegating to the single ExtendsWith field
	Self    bool
}

var adaptorMethods = []string{"Hello() string", "Close() error", "Count(n int) int", "Put(key string, value []byte)"}
var adaptorFieldNames = []string{"Alpha", "Beta", "Gamma", "Delta", "Eps", "Zeta", "Eta", "Theta", "Iota", "Kappa"}
var extraMethods = []string{"M1() error", "M2(n int) int", "M3(s string)", "M4() string", "M5() bool", "M6(a, b int) (int, error)", "M7() []string"}

func genAdaptor(options bool) *rapid.Generator[adaptorSpec] {
	return rapid.Custom(func(t *rapid.T) adaptorSpec {
		var s adaptorSpec
		nm := rapid.IntRange(1, len(adaptorMethods)).Draw(t, "methods")
		for i := 0; i < nm; i++ {
			s.Methods = append(s.Methods, i)
		}
		if options {
			s.Options = rapid.IntRange(1, len(extraMethods)).Draw(t, "options")
		} else {
			nf := rapid.IntRange(1, 9).Draw(t, "fields")
			names := rapid.Permutation(adaptorFieldNames).Draw(t, "names")
			s.Fields = append(s.Fields, names[:nf]...)
		}
		s.Self = rapid.Bool().Draw(t, "self")
		return s
	})
}

func (s adaptorSpec) render() string {
	var w strings.Builder
	w.WriteString("package pa\n\nimport \"github.com/csgura/fp/genfp\"\n\n//go:generate go run github.com/csgura/fp/cmd/gombok\n\n")
	w.WriteString("type Svc interface {\n")
	for _, m := range s.Methods {
		w.WriteString("\t" + adaptorMethods[m] + "\n")
	}
	w.WriteString("}\n\n")
	if s.Options > 0 {
		w.WriteString("type Extra interface {\n")
		for _, m := range extraMethods[:s.Options] {
			w.WriteString("\t" + m + "\n")
		}
		w.WriteString("}\n\n")
	}
	for i := range s.Fields {
		fmt.Fprintf(&w, "type T%d struct{}\n\n", i+1)
	}
	w.WriteString("// @fp.Generate\nvar _ = genfp.GenerateAdaptor[Svc]{\n\tFile: \"adaptor_generated.go\",\n")
	if s.Self {
		w.WriteString("\tSelf: true,\n")
	}
	w.WriteString("\tExtendsWith: map[string]genfp.TypeTag{\n")
	for i, f := range s.Fields {
		fmt.Fprintf(&w, "\t\t%q: genfp.TypeOf[T%d](),\n", f, i+1)
	}
	if s.Options > 0 {
		w.WriteString("\t\t\"Extra\": genfp.TypeOf[Extra](),\n")
	}
	w.WriteString("\t},\n")
	if s.Options > 0 {
		w.WriteString("\tOptions: []genfp.ImplOption{\n")
		for _, m := range extraMethods[:s.Options] {
			fmt.Fprintf(&w, "\t\t{Method: Extra.%s, Delegate: genfp.Delegate{Field: \"Extra\"}},\n", m[:strings.IndexByte(m, '(')])
		}
		w.WriteString("\t},\n")
	}
	w.WriteString("}\n")
	return w.String()
}

func adaptorCheck(t *testing.T, env *scratchEnv) {
	common := "; gombok (built from the tree) run on three identical copies with GOMAXPROCS=1/16/default and once more on top of its own output; non-trivial iff gombok accepted the package and wrote >= 1 non-empty file; distinct by source text"
	kit.Check(t, "scratch/adaptor-extendswith",
		"scratch package `pa` with one interface (1-4 methods) and one `// @fp.Generate` genfp.GenerateAdaptor directive whose ExtendsWith map has 1-9 entries (names permuted), Self drawn"+common,
		kit.Opt{Weight: 0.5, MinChecks: 1, HangAfter: 20 * time.Minute},
		func(rt *rapid.T, rec *kit.Rec) {
			spec := genAdaptor(false).Draw(rt, "adaptor")
			env.decide(rt, rec, "C13|adaptor.ExtendsWith", spec.render(), func() {
				rec.Label(fmt.Sprintf("extends-with:%d", len(spec.Fields)))
				rec.Label(fmt.Sprintf("methods:%d", len(spec.Methods)))
			})
		})
	kit.Check(t, "scratch/adaptor-options",
		"scratch package `pa` with one interface (1-4 methods) and one `// @fp.Generate` genfp.GenerateAdaptor directive with a single ExtendsWith field of a second interface (1-7 methods) and one ImplOption per method of that interface delegating to the field, Self drawn"+common,
		kit.Opt{Weight: 0.5, MinChecks: 1, HangAfter: 20 * time.Minute},
		func(rt *rapid.T, rec *kit.Rec) {
			spec := genAdaptor(true).Draw(rt, "adaptor")
			env.decide(rt, rec, "C13|adaptor.Options", spec.render(), func() {
				rec.Label(fmt.Sprintf("options:%d", spec.Options))
				rec.Label(fmt.Sprintf("methods:%d", len(spec.Methods)))
			})
		})
}
