package c08

import (
	"testing"

	"verifharness/gomspec"
	"verifharness/kit"
	"verifharness/scratch"
)

func TestMain(m *testing.M) { kit.MainWith(m, scratch.Cleanup) }

func TestDerive(t *testing.T) {
	gomspec.DeriveCheck(t, "derive/packages", kit.Pick(5, 100))
}

func TestKnown(t *testing.T) {
	gomspec.KnownD16Check(t)
}
