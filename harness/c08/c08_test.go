package c08

import (
	"os"
	"strconv"
	"testing"

	"verifharness/gomspec"
	"verifharness/kit"
	"verifharness/scratch"
)

func TestMain(m *testing.M) { kit.MainWith(m, scratch.Cleanup) }

func TestDerive(t *testing.T) {
	gomspec.DeriveCheck(t, "derive/packages", kit.Pick(2, 100), "")
	// focused on @fp.Derive(recursive=true) over nested plain structs with exported / mixed-visibility fields
	gomspec.DeriveCheck(t, "derive/recursive-plain", kit.Pick(1, 50), "recursive-plain")
	// focused on a generic struct D1[TA, TB] whose fields use the parameters in either order, used as a field
	// type (directly, by pointer, in a slice) by a later struct that derives the same classes
	gomspec.DeriveCheck(t, "derive/generic-nested", kit.Pick(1, 50), "generic-nested")
}

// Shapes that reach further parts of the deriver; the general grammar (derive/packages) draws each of them
// too, with a small probability.
// every case is a whole package (gombok + go build + law test): in the quick tier some sub-checks take their
// turn in every second shard only (a run of a single sub-check / a replay runs them in any shard)
func turn(k int) bool {
	if kit.Thorough() || os.Getenv("VERIF_ONLY") != "" {
		return true
	}
	sh, _ := strconv.Atoi(os.Getenv("VERIF_SHARD"))
	return (sh+k)%2 == 0
}

func TestShapes(t *testing.T) {
	// one struct with 22-25 fields: beyond the tuple limit (HList representation, values built field by field)
	if turn(0) {
		gomspec.DeriveCheck(t, "derive/wide", kit.Pick(1, 10), "wide")
	}
	// fields of unnamed struct type, directly and below pointer / slice / Option
	if turn(1) {
		gomspec.DeriveCheck(t, "derive/inline-struct", kit.Pick(1, 10), "inline")
	}
	// @fp.GenLabelled structs deriving Show (the derive package with Labelled / Named instances) and other classes
	if turn(2) {
		gomspec.DeriveCheck(t, "derive/labelled", kit.Pick(1, 10), "labelled")
	}
	// hand-written generic types whose instances are hand-written generic functions (Box[T], Pair[K, V], Bag[T])
	if turn(3) {
		gomspec.DeriveCheck(t, "derive/given-func", kit.Pick(1, 10), "given-func")
	}
	// named non-struct types (MyInt, MyStr, Names, Index) with no / a hand-written / a derived instance
	if turn(4) {
		gomspec.DeriveCheck(t, "derive/named-types", kit.Pick(1, 10), "named")
	}
	// instances declared by a second package, imported with @fp.ImportGiven
	if turn(5) {
		gomspec.DeriveCheck(t, "derive/import-given", kit.Pick(1, 10), "import-given")
	}
}

func TestPrecedence(t *testing.T) {
	if turn(1) {
		gomspec.PrecedenceCheck(t, "derive/precedence-two-packages", kit.Pick(1, 24))
	}
}

// instance packages written by the user (HCons plumbing only): gombok takes the HList representation
func TestUserPackage(t *testing.T) {
	if turn(0) {
		gomspec.UserPackageCheck(t, "derive/user-instance-package", kit.Pick(2, 24))
	}
}

func TestKnown(t *testing.T) {
	gomspec.KnownD16Check(t)
	gomspec.KnownCloneNamedCheck(t)
}
