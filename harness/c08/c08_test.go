package c08

import (
	"testing"

	"verifharness/gomspec"
	"verifharness/kit"
	"verifharness/scratch"
)

func TestMain(m *testing.M) { kit.MainWith(m, scratch.Cleanup) }

func TestDerive(t *testing.T) {
	gomspec.DeriveCheck(t, "derive/packages", kit.Pick(4, 100), "")
	// focused on @fp.Derive(recursive=true) over nested plain structs with exported / mixed-visibility fields
	gomspec.DeriveCheck(t, "derive/recursive-plain", kit.Pick(2, 50), "recursive-plain")
	// focused on a generic struct D1[TA, TB] whose fields use the parameters in either order, used as a field
	// type (directly, by pointer, in a slice) by a later struct that derives the same classes
	gomspec.DeriveCheck(t, "derive/generic-nested", kit.Pick(2, 50), "generic-nested")
}

func TestPrecedence(t *testing.T) {
	gomspec.PrecedenceCheck(t, "derive/precedence-two-packages", kit.Pick(1, 24))
}

func TestKnown(t *testing.T) {
	gomspec.KnownD16Check(t)
}
